//! Symbolic valid-state builders for `Raft<VStore>` / `RawNode<VStore>` and the
//! representation invariants of DESIGN.md 2.2.
//!
//! Shapes (vector lengths, configuration membership, role, progress state, next_idx
//! offsets) are concrete per harness; every value (terms, commit/applied/persisted,
//! vote, leader, timers, flags, matched, inflight indexes, ...) is symbolic.

use crate::inp::Src;
use crate::vstore::{VStore, LMAX};
use raft::eraftpb::{ConfState, Entry, HardState, Message, MessageType};
use raft::verif_export::{Configuration, HashMap, HashSet, ProgressMap, VerifRaftPrivate};
use raft::{Config, Inflights, Progress, ProgressState, ProgressTracker, Raft, ReadOnlyOption, StateRole, NO_LIMIT};
use slog::{o, Logger};

pub const ME: u64 = 1;
pub const ELECTION_TICK: usize = 10;
pub const HEARTBEAT_TICK: usize = 3;
pub const CAP: usize = raft::verif_shim::CAP; // 6, or 9 in the cap9 build
pub const TERM_MAX: u64 = 1 << 62;

#[derive(Clone, Copy)]
pub struct PeerShape {
    pub id: u64,
    pub state: ProgressState,
    /// next_idx = base + next_off  (concrete: fixes the length of the slice a leader fetches)
    pub next_off: u64,
    /// number of tracked inflight appends (Replicate only)
    pub inflight: usize,
    /// matched = base + off (concrete), or symbolic below next_idx.  Concrete where the step
    /// derives next_idx from matched (become_probe / become_replicate).
    pub matched_off: Option<u64>,
    pub matched_abs: Option<u64>,
    /// Probe: paused flag; all states: recent_active.  Concrete because they decide whether a
    /// message is emitted (a symbolic number of emitted messages makes every later push costly).
    pub paused: bool,
    pub recent_active: bool,
    /// Snapshot state: pending_snapshot = base + off
    pub pending_snapshot_off: u64,
    /// Snapshot state: the outstanding snapshot is one the follower asked for
    /// (pending_request_snapshot = pending_snapshot); concrete: it decides what is sent next
    pub requested: bool,
}

impl PeerShape {
    pub const fn pending_snapshot(mut self, off: u64) -> PeerShape {
        self.pending_snapshot_off = off;
        self
    }
    pub const fn requested(mut self) -> PeerShape {
        self.requested = true;
        self
    }
    pub const fn paused(mut self) -> PeerShape {
        self.paused = true;
        self
    }
    pub const fn inactive(mut self) -> PeerShape {
        self.recent_active = false;
        self
    }
    pub const fn probe(id: u64, next_off: u64) -> PeerShape {
        PeerShape { id, state: ProgressState::Probe, next_off, inflight: 0, matched_off: None, matched_abs: None, paused: false, recent_active: true, pending_snapshot_off: 1, requested: false }
    }
    pub const fn replicate(id: u64, next_off: u64, inflight: usize) -> PeerShape {
        PeerShape { id, state: ProgressState::Replicate, next_off, inflight, matched_off: None, matched_abs: None, paused: false, recent_active: true, pending_snapshot_off: 1, requested: false }
    }
    pub const fn snapshot(id: u64, next_off: u64) -> PeerShape {
        PeerShape { id, state: ProgressState::Snapshot, next_off, inflight: 0, matched_off: None, matched_abs: None, paused: false, recent_active: true, pending_snapshot_off: 1, requested: false }
    }
    pub const fn matched(mut self, off: u64) -> PeerShape {
        self.matched_off = Some(off);
        self
    }
    /// matched as an absolute index (for peers behind the compaction point)
    pub const fn matched_abs(mut self, v: u64) -> PeerShape {
        self.matched_abs = Some(v);
        self
    }
}

#[derive(Clone, Copy)]
pub struct Shape {
    pub voters: &'static [u64],
    pub outgoing: &'static [u64],
    pub learners: &'static [u64],
    pub learners_next: &'static [u64],
    pub auto_leave: bool,
    /// snapshot / compaction point of the stable storage
    pub base: u64,
    pub n_stable: usize,
    pub n_unstable: usize,
    pub role: StateRole,
    pub max_inflight: usize,
    pub max_msg_size: u64,
    /// leader only: progress shape per peer (peers not listed: Probe, next = last+1)
    pub peers: &'static [PeerShape],
    /// concrete log terms (snapshot term first when base > 0); empty = symbolic terms.
    /// Used where the *pattern* of term equalities decides vector lengths (truncating
    /// appends): the pattern is then part of the shape, the current term stays symbolic.
    pub fixed_terms: &'static [u64],
    /// concrete commit index (offset from base); None = symbolic.  Needed where the code under
    /// test slices the log by the commit index (ranges fix vector lengths).
    pub fixed_commit: Option<u64>,
    /// concrete applied index (offset from base); None = symbolic
    pub fixed_applied: Option<u64>,
    /// concrete current term; None = symbolic.  Used where the role after the term check must be
    /// a constant for symbolic execution (a role that is `ite(c, Follower, Leader)` makes CBMC
    /// walk every handler); the message term is then concrete too (older / equal / newer).
    pub fixed_term: Option<u64>,
    /// concrete entry types (prost i32 per entry); empty = symbolic.  Needed where the code
    /// scans entries for membership changes and exits early from a consuming iterator.
    pub fixed_etypes: &'static [i32],
    /// concrete persisted index (offset from base); None = symbolic
    pub fixed_persisted: Option<u64>,
    /// concrete (check_quorum, pre_vote, skip_bcast_commit); None = symbolic
    pub fixed_flags: Option<(bool, bool, bool)>,
    /// (pre)candidates: the votes recorded so far (must contain (ME, true))
    pub votes: &'static [(u64, bool)],
}

pub const V3: &[u64] = &[1, 2, 3];

impl Shape {
    pub const fn follower3(n_stable: usize, n_unstable: usize) -> Shape {
        Shape {
            voters: V3,
            outgoing: &[],
            learners: &[],
            learners_next: &[],
            auto_leave: false,
            base: 0,
            n_stable,
            n_unstable,
            role: StateRole::Follower,
            max_inflight: 2,
            max_msg_size: NO_LIMIT,
            peers: &[],
            fixed_terms: &[],
            fixed_commit: None,
            fixed_applied: None,
            fixed_term: None,
            fixed_etypes: &[],
            fixed_persisted: None,
            fixed_flags: None,
            votes: &[],
        }
    }
    pub const fn with_votes(mut self, v: &'static [(u64, bool)]) -> Shape {
        self.votes = v;
        self
    }
    pub const fn with_persisted(mut self, p: u64) -> Shape {
        self.fixed_persisted = Some(p);
        self
    }
    pub const fn with_flags(mut self, check_quorum: bool, pre_vote: bool, skip_bcast: bool) -> Shape {
        self.fixed_flags = Some((check_quorum, pre_vote, skip_bcast));
        self
    }
    pub const fn with_etypes(mut self, t: &'static [i32]) -> Shape {
        self.fixed_etypes = t;
        self
    }
    pub const fn with_term(mut self, t: u64) -> Shape {
        self.fixed_term = Some(t);
        self
    }
    pub const fn with_commit(mut self, c: u64) -> Shape {
        self.fixed_commit = Some(c);
        self
    }
    pub const fn with_applied(mut self, a: u64) -> Shape {
        self.fixed_applied = Some(a);
        self
    }
    pub const fn with_terms(mut self, t: &'static [u64]) -> Shape {
        self.fixed_terms = t;
        self
    }
    pub const fn with_role(mut self, r: StateRole) -> Shape {
        self.role = r;
        self
    }
    pub const fn with_base(mut self, b: u64) -> Shape {
        self.base = b;
        self
    }
    pub const fn with_conf(
        mut self,
        voters: &'static [u64],
        outgoing: &'static [u64],
        learners: &'static [u64],
        learners_next: &'static [u64],
        auto_leave: bool,
    ) -> Shape {
        self.voters = voters;
        self.outgoing = outgoing;
        self.learners = learners;
        self.learners_next = learners_next;
        self.auto_leave = auto_leave;
        self
    }
    pub const fn with_peers(mut self, p: &'static [PeerShape]) -> Shape {
        self.peers = p;
        self
    }
    pub const fn with_inflight(mut self, n: usize) -> Shape {
        self.max_inflight = n;
        self
    }
    pub const fn with_msg_size(mut self, n: u64) -> Shape {
        self.max_msg_size = n;
        self
    }
    pub fn last(&self) -> u64 {
        self.base + (self.n_stable + self.n_unstable) as u64
    }
    pub fn is_voter(&self, id: u64) -> bool {
        has(self.voters, id) || has(self.outgoing, id)
    }
    pub fn tracked(&self, id: u64) -> bool {
        self.is_voter(id) || has(self.learners, id) || has(self.learners_next, id)
    }
    /// all tracked ids, in slot order
    pub fn ids(&self) -> ([u64; CAP], usize) {
        let mut out = [0u64; CAP];
        let mut n = 0;
        let sets = [self.voters, self.outgoing, self.learners, self.learners_next];
        let mut k = 0;
        while k < 4 {
            let set = sets[k];
            let mut j = 0;
            while j < set.len() {
                let id = set[j];
                let mut dup = false;
                let mut q = 0;
                while q < n {
                    if out[q] == id {
                        dup = true;
                    }
                    q += 1;
                }
                if !dup {
                    assert!(n < CAP, "shape exceeds shim capacity");
                    out[n] = id;
                    n += 1;
                }
                j += 1;
            }
            k += 1;
        }
        (out, n)
    }
}

/// plain membership test (std's `slice::contains` for u64 is a chunked SIMD-style loop
/// that symbolic execution handles badly)
pub fn has(set: &[u64], id: u64) -> bool {
    let mut i = 0;
    while i < set.len() {
        if set[i] == id {
            return true;
        }
        i += 1;
    }
    false
}

pub fn logger() -> Logger {
    Logger::root(slog::Discard, o!())
}

pub fn set_of(ids: &[u64]) -> HashSet<u64> {
    let mut slots: [Option<u64>; CAP] = [None; CAP];
    let mut i = 0;
    while i < ids.len() {
        slots[i] = Some(ids[i]);
        i += 1;
    }
    HashSet::verif_from_slots(slots)
}

pub fn conf_of(sh: &Shape) -> Configuration {
    Configuration::verif_from_parts(
        set_of(sh.voters),
        set_of(sh.outgoing),
        set_of(sh.learners),
        set_of(sh.learners_next),
        sh.auto_leave,
    )
}

pub fn conf_state_of(sh: &Shape) -> ConfState {
    let mut cs = ConfState::default();
    cs.voters = sh.voters.to_vec();
    cs.voters_outgoing = sh.outgoing.to_vec();
    cs.learners = sh.learners.to_vec();
    cs.learners_next = sh.learners_next.to_vec();
    cs.auto_leave = sh.auto_leave;
    cs
}

/// Ghost copy of what the builder chose (for oracles).
#[derive(Clone, Copy)]
pub struct Ghost {
    pub term: u64,
    pub base: u64,
    pub snap_term: u64,
    /// terms of entries base+1 ..= base+n
    pub terms: [u64; LMAX],
    /// entry types (prost i32) of the same entries
    pub etype: [i32; LMAX],
    pub n: usize,
    pub committed: u64,
    pub applied: u64,
    pub persisted: u64,
}

impl Ghost {
    pub fn last(&self) -> u64 {
        self.base + self.n as u64
    }
    /// term of index i as a plain sequence model would answer (None outside [base, last])
    pub fn term_at(&self, i: u64) -> Option<u64> {
        if i == self.base {
            Some(self.snap_term)
        } else if i > self.base && i <= self.last() {
            Some(self.terms[(i - self.base - 1) as usize])
        } else {
            None
        }
    }
    pub fn last_term(&self) -> u64 {
        self.term_at(self.last()).unwrap()
    }
    /// is there a membership entry in (lo, hi] ?
    pub fn conf_entry_in(&self, lo: u64, hi: u64) -> bool {
        let mut found = false;
        let mut k = 0;
        while k < self.n {
            let idx = self.base + 1 + k as u64;
            if idx > lo && idx <= hi && self.etype[k] != 0 {
                found = true;
            }
            k += 1;
        }
        found
    }
}

fn sym_id(s: &mut Src) -> u64 {
    s.below(7)
}

/// Builds a symbolic `Raft<VStore>` of the given concrete shape whose values satisfy the
/// representation invariants LI / CI / NI / PI and nothing else.
pub fn mk_raft(s: &mut Src, sh: &Shape) -> (Raft<VStore>, Ghost) {
    let lg = logger();
    let n = sh.n_stable + sh.n_unstable;
    assert!(n <= LMAX);
    // ---- terms (LI: non-decreasing along the log, >= 1, <= current term)
    let term = match sh.fixed_term {
        Some(t) => t,
        None => s.u64(),
    };
    vassume!(term < TERM_MAX);
    let fixed = !sh.fixed_terms.is_empty();
    let foff = if sh.base == 0 { 0 } else { 1 };
    if fixed {
        assert!(sh.fixed_terms.len() == n + foff, "shape: fixed_terms length");
    }
    let snap_term = if sh.base == 0 {
        0
    } else if fixed {
        vassume!(sh.fixed_terms[0] <= term);
        sh.fixed_terms[0]
    } else {
        let t = s.u64();
        vassume!(t >= 1 && t <= term);
        t
    };
    let mut terms = [0u64; LMAX];
    let mut prev = snap_term;
    let mut i = 0;
    while i < n {
        let t = if fixed { sh.fixed_terms[i + foff] } else { s.u64() };
        if fixed {
            assert!(t >= prev && t >= 1, "shape: fixed_terms not a valid log");
        }
        vassume!(t >= prev && t >= 1 && t <= term);
        terms[i] = t;
        prev = t;
        i += 1;
    }
    let mut store = VStore::new(sh.base, snap_term);
    let mut etype = [0i32; LMAX];
    i = 0;
    while i < n {
        etype[i] = if sh.fixed_etypes.is_empty() {
            s.below(3) as i32
        } else {
            sh.fixed_etypes[i]
        };
        i += 1;
    }
    i = 0;
    while i < sh.n_stable {
        store.etype[i] = etype[i];
        store.push(terms[i]);
        i += 1;
    }
    store.cs = conf_state_of(sh);
    // ---- config knobs
    let mut cfg = Config::new(ME);
    cfg.election_tick = ELECTION_TICK;
    cfg.heartbeat_tick = HEARTBEAT_TICK;
    cfg.max_inflight_msgs = sh.max_inflight;
    cfg.max_size_per_msg = sh.max_msg_size;
    match sh.fixed_flags {
        Some((cq, pv, sk)) => {
            cfg.check_quorum = cq;
            cfg.pre_vote = pv;
            cfg.skip_bcast_commit = sk;
        }
        None => {
            cfg.check_quorum = s.bool();
            cfg.pre_vote = s.bool();
            cfg.skip_bcast_commit = s.bool();
        }
    }
    cfg.read_only_option = ReadOnlyOption::Safe;
    cfg.priority = 0;
    // ---- tracker (CI holds by construction of the shape lists)
    let last = sh.last();
    let (ids, nids) = sh.ids();
    // (not `array::from_fn`: MaybeUninit writes defeat constant propagation)
    const NONE_P: Option<(u64, Progress)> = None;
    let mut slots: [Option<(u64, Progress)>; CAP] = [NONE_P; CAP];
    i = 0;
    while i < nids {
        let mut p = Progress::new(last + 1, sh.max_inflight);
        p.recent_active = s.bool();
        slots[i] = Some((ids[i], p));
        i += 1;
    }
    let progress: ProgressMap = HashMap::verif_from_slots(slots);
    let mut vslots: [Option<(u64, bool)>; CAP] = [None; CAP];
    i = 0;
    while i < sh.votes.len() {
        vslots[i] = Some(sh.votes[i]);
        i += 1;
    }
    let votes: HashMap<u64, bool> = HashMap::verif_from_slots(vslots);
    let prs = ProgressTracker::verif_from_parts(progress, conf_of(sh), votes, sh.max_inflight, false);
    let mut r = Raft::verif_from_parts(&cfg, store, &lg, prs);
    // ---- unstable suffix
    i = sh.n_stable;
    while i < n {
        let mut e = Entry::default();
        e.index = sh.base + 1 + i as u64;
        e.term = terms[i];
        e.entry_type = etype[i];
        r.raft_log.unstable.entries_size += raft::util::entry_approximate_size(&e);
        r.raft_log.unstable.entries.push(e);
        i += 1;
    }
    // ---- cursors (LI)
    let stable_last = sh.base + sh.n_stable as u64;
    let persisted = match sh.fixed_persisted {
        Some(p) => sh.base + p,
        None => s.u64(),
    };
    let committed = match sh.fixed_commit {
        Some(c) => sh.base + c,
        None => s.u64(),
    };
    let applied = match sh.fixed_applied {
        Some(a) => sh.base + a,
        None => s.u64(),
    };
    vassume!(persisted >= sh.base && persisted <= stable_last);
    vassume!(committed >= sh.base && committed <= last);
    vassume!(applied >= sh.base && applied <= committed);
    r.raft_log.persisted = persisted;
    r.raft_log.committed = committed;
    r.raft_log.applied = applied;
    // ---- node (NI)
    r.term = term;
    r.state = sh.role;
    let mut pv = r.verif_private();
    pv.promotable = sh.is_voter(ME);
    r.election_elapsed = s.usize_below(2 * ELECTION_TICK);
    pv.randomized_election_timeout = ELECTION_TICK + s.usize_below(ELECTION_TICK);
    pv.heartbeat_elapsed = 0;
    r.vote = sym_id(s);
    r.leader_id = sym_id(s);
    match sh.role {
        StateRole::Follower => {
            // limit = 0 outside leadership (become_follower resets it)
            vassume!(applied <= persisted);
            if pv.promotable {
                vassume!(r.election_elapsed < pv.randomized_election_timeout);
            }
            // a follower that knows a leader for this term voted for nobody else's rival:
            // nothing is assumed here - vote and leader_id are independent ids.
        }
        StateRole::PreCandidate | StateRole::Candidate => {
            vassume!(applied <= persisted);
            vassume!(pv.promotable);
            vassume!(term >= 1);
            r.leader_id = 0;
            if sh.role == StateRole::Candidate {
                r.vote = ME;
            }
            vassume!(r.election_elapsed < pv.randomized_election_timeout);
            // entries were persisted before the vote requests went out, none appended since
            vassume!(persisted == last);
        }
        StateRole::Leader => {
            vassume!(term >= 1);
            r.leader_id = ME;
            r.vote = ME;
            vassume!(r.election_elapsed < ELECTION_TICK);
            pv.heartbeat_elapsed = s.usize_below(HEARTBEAT_TICK);
            // the leader appended an entry of its own term when elected and only appends since
            let lt = if n == 0 { snap_term } else { terms[n - 1] };
            vassume!(lt == term);
        }
    }
    r.verif_set_private(&pv);
    let g = Ghost {
        term,
        base: sh.base,
        snap_term,
        terms,
        etype,
        n,
        committed,
        applied,
        persisted,
    };
    if sh.role == StateRole::Leader {
        leader_progress(s, sh, &mut r, &g);
    }
    (r, g)
}

/// PI: per-peer progress of a leader.
fn leader_progress(s: &mut Src, sh: &Shape, r: &mut Raft<VStore>, g: &Ghost) {
    let last = g.last();
    let (ids, nids) = sh.ids();
    let committed = g.committed;
    let persisted = g.persisted;
    let maxinf = sh.max_inflight;
    let mut i = 0;
    while i < nids {
        let id = ids[i];
        let pr = r.mut_prs().get_mut(id).unwrap();
        pr.committed_index = s.u64();
        vassume!(pr.committed_index <= committed);
        if id == ME {
            pr.matched = persisted;
            pr.next_idx = last + 1;
            pr.state = ProgressState::Replicate;
            pr.recent_active = true;
        } else {
            let mut ps = PeerShape::probe(id, (last - sh.base) + 1);
            let mut q = 0;
            while q < sh.peers.len() {
                if sh.peers[q].id == id {
                    ps = sh.peers[q];
                }
                q += 1;
            }
            let next = sh.base + ps.next_off;
            assert!(next >= 1 && next <= last + 1, "shape: next_idx out of (0, last+1]");
            pr.next_idx = next;
            pr.matched = match (ps.matched_abs, ps.matched_off) {
                (Some(v), _) => v,
                (None, Some(o)) => sh.base + o,
                (None, None) => s.u64(),
            };
            vassume!(pr.matched < next);
            pr.state = ps.state;
            pr.recent_active = ps.recent_active;
            match ps.state {
                ProgressState::Probe => {
                    pr.paused = ps.paused;
                }
                ProgressState::Replicate => {
                    // inflight indexes: the last `inflight` indexes below next_idx (concrete: the
                    // comparison with an acked index decides how many slots are freed, i.e.
                    // whether more appends are emitted), all in (matched, next_idx)
                    assert!(ps.inflight <= maxinf);
                    let mut k = 0;
                    let mut ins = Inflights::new(maxinf);
                    while k < ps.inflight {
                        let v = next - (ps.inflight - k) as u64;
                        vassume!(v > pr.matched);
                        ins.add(v);
                        k += 1;
                    }
                    pr.ins = ins;
                }
                ProgressState::Snapshot => {
                    pr.pending_snapshot = sh.base + ps.pending_snapshot_off;
                    assert!(pr.pending_snapshot >= 1 && pr.pending_snapshot <= last, "shape: pending_snapshot");
                    if ps.requested {
                        pr.pending_request_snapshot = pr.pending_snapshot;
                    }
                }
            }
        }
        i += 1;
    }
}

/// LI on a post-state (asserted, i.e. checked for preservation).
pub fn assert_li(r: &Raft<VStore>) {
    let log = &r.raft_log;
    let last = log.last_index();
    assert!(log.committed <= last, "LI: committed > last");
    assert!(log.applied <= log.committed, "LI: applied > committed");
    assert!(log.persisted < log.unstable.offset || log.unstable.snapshot.is_some(), "LI: persisted >= unstable.offset");
    if log.unstable.snapshot.is_none() {
        assert!(log.persisted <= log.store.last(), "LI: persisted beyond stable storage");
    }
    // contiguity of the unstable suffix
    let mut i = 0;
    while i < log.unstable.entries.len() {
        assert!(log.unstable.entries[i].index == log.unstable.offset + i as u64, "LI: unstable not contiguous");
        i += 1;
    }
}

/// NI for a node that is not leader (asserted on post-states): every role change goes through
/// `reset`, which forgets what peers had acknowledged and re-bases the own progress.
pub fn assert_progress_reset(r: &Raft<VStore>, sh: &Shape) {
    let (ids, n) = sh.ids();
    let last = r.raft_log.last_index();
    let mut i = 0;
    while i < n {
        if let Some(p) = r.prs().get(ids[i]) {
            if ids[i] == ME {
                assert!(p.matched == r.raft_log.persisted, "reset: own matched must be the persisted index");
            } else {
                assert!(p.matched == 0, "reset: acknowledgements of an earlier leadership survived the role change");
            }
            assert!(p.next_idx == last + 1 && p.ins.count() == 0 && !p.paused && p.pending_snapshot == 0);
            assert!(p.pending_request_snapshot == 0, "reset: a snapshot request recorded by an earlier leadership survived the role change");
            assert!(p.state == ProgressState::Probe);
        }
        i += 1;
    }
}

/// A message skeleton from peer `from` to ME.
pub fn msg(t: MessageType, from: u64, term: u64) -> Message {
    let mut m = Message::default();
    m.set_msg_type(t);
    m.from = from;
    m.to = ME;
    m.term = term;
    m
}

/// Symbolic relation of a message term to the node term: any value (older, equal, newer).
pub fn any_term(s: &mut Src) -> u64 {
    let t = s.u64();
    vassume!(t < TERM_MAX);
    t
}

pub fn forget<T>(x: T) {
    std::mem::forget(x);
}
