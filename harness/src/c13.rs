//! C13 / C10 component level: the per-follower `Progress` state machine and the leader's
//! uncommitted-size accounting with fully symbolic fields and arguments.

use crate::inp::Src;
use crate::state::*;
use raft::eraftpb::Entry;
use raft::{Inflights, Progress, ProgressState, StateRole};

/// symbolic Progress satisfying PI; `inflight` concrete count (Replicate), window capacity 2
fn any_progress(s: &mut Src, state: ProgressState, inflight: usize) -> Progress {
    let mut p = Progress::new(1, 2);
    p.matched = s.u64();
    p.next_idx = s.u64();
    vassume!(p.matched < p.next_idx && p.next_idx < u64::MAX - 4);
    p.state = state;
    p.paused = s.bool();
    p.recent_active = s.bool();
    p.pending_request_snapshot = s.u64();
    if state == ProgressState::Snapshot {
        p.pending_snapshot = s.u64();
        vassume!(p.pending_snapshot >= 1 && p.pending_snapshot < u64::MAX - 4);
    }
    if state == ProgressState::Replicate {
        let mut ins = Inflights::new(2);
        let mut prev = p.matched;
        let mut k = 0;
        while k < inflight {
            let v = s.u64();
            vassume!(v > prev && v < p.next_idx);
            ins.add(v);
            prev = v;
            k += 1;
        }
        p.ins = ins;
        p.paused = false;
    }
    p
}

fn state_of(k: u8) -> ProgressState {
    match k {
        0 => ProgressState::Probe,
        1 => ProgressState::Replicate,
        _ => ProgressState::Snapshot,
    }
}

/// maybe_update / maybe_decr_to / is_snapshot_caught_up / is_paused / become_* from any PI state
pub fn progress_ops(s: &mut Src, state_k: u8, inflight: usize) {
    let st = state_of(state_k);
    // ---- maybe_update
    {
        let mut p = any_progress(s, st, inflight);
        let (m0, n0, paused0) = (p.matched, p.next_idx, p.paused);
        let n = s.u64();
        vassume!(n < u64::MAX - 4);
        let r = p.maybe_update(n);
        assert!(r == (n > m0), "maybe_update result");
        assert!(p.matched == if n > m0 { n } else { m0 }, "matched after maybe_update");
        assert!(p.next_idx == if n + 1 > n0 { n + 1 } else { n0 }, "next_idx after maybe_update");
        assert!(p.matched < p.next_idx, "PI after maybe_update");
        assert!(p.paused == (paused0 && !r), "an update resumes a paused probe");
        std::mem::forget(p);
    }
    // ---- is_snapshot_caught_up / is_paused
    {
        let p = any_progress(s, st, inflight);
        assert!(p.is_snapshot_caught_up() == (st == ProgressState::Snapshot && p.matched >= p.pending_snapshot), "snapshot caught up <=> the snapshot index is acknowledged");
        let paused = match st {
            ProgressState::Probe => p.paused,
            ProgressState::Replicate => inflight == 2,
            ProgressState::Snapshot => true,
        };
        assert!(p.is_paused() == paused, "is_paused");
        std::mem::forget(p);
    }
    // ---- maybe_decr_to (no snapshot request)
    {
        let mut p = any_progress(s, st, inflight);
        let (m0, n0) = (p.matched, p.next_idx);
        let rejected = s.u64();
        let hint = s.u64();
        vassume!(hint < u64::MAX - 4);
        let r = p.maybe_decr_to(rejected, hint, 0);
        if st == ProgressState::Replicate {
            assert!(r == (rejected > m0), "replicate: stale unless it rejects something beyond matched");
            if r {
                assert!(p.next_idx == m0 + 1);
            } else {
                assert!(p.next_idx == n0);
            }
        } else {
            assert!(r == (n0 - 1 == rejected), "probe/snapshot: only the rejection of the probed index counts");
            if r {
                let cand = if rejected < hint + 1 { rejected } else { hint + 1 };
                let exp = if cand < m0 + 1 { m0 + 1 } else { cand };
                assert!(p.next_idx == exp, "next_idx after a rejection");
                assert!(p.next_idx <= n0 || n0 == m0 + 1, "a rejection never raises next_idx");
                assert!(!p.paused, "rejection resumes probing");
            } else {
                assert!(p.next_idx == n0);
            }
        }
        assert!(p.matched == m0 && p.matched < p.next_idx, "PI after maybe_decr_to");
        std::mem::forget(p);
    }
    // ---- become_probe / become_replicate / become_snapshot
    {
        let mut p = any_progress(s, st, inflight);
        let (m0, ps0) = (p.matched, p.pending_snapshot);
        p.become_probe();
        assert!(p.state == ProgressState::Probe && !p.paused && p.ins.count() == 0 && p.pending_snapshot == 0);
        let exp = if st == ProgressState::Snapshot && ps0 + 1 > m0 + 1 { ps0 + 1 } else { m0 + 1 };
        assert!(p.next_idx == exp, "probing resumes right after the snapshot / the matched index");
        p.become_replicate();
        assert!(p.state == ProgressState::Replicate && p.next_idx == m0 + 1 && p.ins.count() == 0);
        let si = s.u64();
        vassume!(si < u64::MAX - 4);
        p.become_snapshot(si);
        assert!(p.state == ProgressState::Snapshot && p.pending_snapshot == si && p.is_paused() && p.ins.count() == 0);
        std::mem::forget(p);
    }
    vcover!(true, "done");
}

/// Uncommitted-size accounting of a leader: admission rule and underflow-free reduction,
/// symbolic limit / outstanding size, entries with payloads of 0..=2 bytes (concrete lengths).
pub fn uncommitted(s: &mut Src, sh: &Shape, lens: &[usize]) {
    let (mut r, g) = mk_raft(s, sh);
    let max = s.u64();
    let unc = s.u64();
    vassume!(max < (1 << 40) && unc < (1 << 40));
    let tail = s.u64();
    let mut pv = r.verif_private();
    pv.max_uncommitted_size = max as usize;
    pv.uncommitted_size = unc as usize;
    pv.last_log_tail_index = tail;
    r.verif_set_private(&pv);
    let mut ents = Vec::with_capacity(4);
    let mut total = 0u64;
    let mut i = 0;
    while i < lens.len() {
        let mut e = Entry::default();
        e.index = 10 + i as u64;
        if lens[i] > 0 {
            e.data = vec![1u8; lens[i]];
        }
        // proposals carry an application context; only payload (data) bytes are budgeted,
        // symmetrically on admission and on refund
        e.context = vec![9u8; 3];
        total += lens[i] as u64;
        ents.push(e);
        i += 1;
    }
    let ok = r.maybe_increase_uncommitted_size(&ents);
    let admit = total == 0 || unc == 0 || total + unc <= max;
    assert!(ok == admit, "admission rule: empty payloads and the first outstanding proposal always pass, otherwise size + outstanding <= limit");
    assert!(r.uncommitted_size() as u64 == if admit { unc + total } else { unc }, "outstanding size after admission");
    // reduction when the entries are handed out as committed
    let before = r.uncommitted_size() as u64;
    r.state = StateRole::Leader;
    r.reduce_uncommitted_size(&ents);
    let counted: u64 = {
        // entries at or below last_log_tail_index (appended before this node became leader) are not counted
        let mut c = 0;
        let mut j = 0;
        let mut skipping = true;
        while j < lens.len() {
            if skipping && 10 + j as u64 <= tail {
                // skipped
            } else {
                skipping = false;
                c += lens[j] as u64;
            }
            j += 1;
        }
        c
    };
    let exp = if counted > before { 0 } else { before - counted };
    assert!(r.uncommitted_size() as u64 == exp, "reduction never underflows and subtracts exactly the counted payload");
    vcover!(total == 0 || !admit, "refused (where a payload exists)");
    vcover!(total == 0 || (admit && unc > 0), "admitted under the limit");
    std::mem::forget(ents);
    forget(r);
}
