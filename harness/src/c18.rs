//! C18 - Inflights is a bounded FIFO under resizing.
//!
//! Reference model: a FIFO of indexes plus an *effective capacity* `ecap` = the most
//! recently requested capacity.  `full <=> len >= ecap`; shrinking never drops items.

use crate::inp::Src;
use raft::Inflights;

pub const MAXQ: usize = 8;

#[derive(Clone, Copy)]
pub struct Model {
    pub q: [u64; MAXQ],
    pub len: usize,
    pub ecap: usize,
}

impl Model {
    pub fn new(cap: usize) -> Model {
        Model {
            q: [0; MAXQ],
            len: 0,
            ecap: cap,
        }
    }
    pub fn full(&self) -> bool {
        self.len >= self.ecap
    }
    pub fn add(&mut self, v: u64) {
        self.q[self.len] = v;
        self.len += 1;
    }
    pub fn pop_front(&mut self) {
        let mut i = 1;
        while i < self.len {
            self.q[i - 1] = self.q[i];
            i += 1;
        }
        self.len -= 1;
    }
    /// removes exactly the prefix of items `<= x`
    pub fn free_to(&mut self, x: u64) {
        while self.len > 0 && self.q[0] <= x {
            self.pop_front();
        }
    }
    pub fn last(&self) -> Option<u64> {
        if self.len == 0 {
            None
        } else {
            Some(self.q[self.len - 1])
        }
    }
}

/// One symbolic operation (kind given) applied to both; returns false if the op was
/// not applicable (e.g. add on a full window) and nothing was done.
fn apply_op(kind: u64, s: &mut Src, real: &mut Inflights, m: &mut Model) {
    match kind {
        0 => {
            // add(v): caller contract = indexes strictly increasing, only when !full()
            let v = s.u64();
            if let Some(l) = m.last() {
                vassume!(v > l);
            }
            // "add succeeds whenever it is not full": decided by the *model's* fullness;
            // a panic inside add() here is a violation.
            if !m.full() {
                assert!(!real.full(), "model not full but implementation reports full");
                real.add(v);
                m.add(v);
            } else {
                assert!(real.full(), "model full but implementation reports not full");
            }
        }
        1 => {
            let x = s.u64();
            real.free_to(x);
            m.free_to(x);
        }
        2 => {
            real.free_first_one();
            if m.len > 0 {
                m.pop_front();
            }
        }
        3 => {
            real.reset();
            m.len = 0;
        }
        _ => {
            real.maybe_free_buffer();
        }
    }
}

fn check_obs(real: &Inflights, m: &Model) {
    assert!(real.count() == m.len, "count differs from model");
    assert!(real.full() == m.full(), "full() differs from model");
}

/// Public-API drain: pins every tracked index exactly (value and order).
fn drain_compare(real: &mut Inflights, m: &mut Model) {
    let mut prev: Option<u64> = None;
    while m.len > 0 {
        let head = m.q[0];
        if head > 0 && prev.map_or(true, |p| head - 1 > p) {
            // nothing is <= head-1 beyond what was already freed
            real.free_to(head - 1);
            assert!(real.count() == m.len, "an index smaller than the model head is tracked");
        }
        real.free_to(head);
        m.pop_front();
        assert!(real.count() == m.len, "head of window differs from model");
        prev = Some(head);
    }
    assert!(real.count() == 0);
}

/// Scripted sequence from `Inflights::new(cap0)` through the public API only: op kinds
/// are concrete (0 add, 1 free_to, 2 free_first_one, 3 reset, 4 maybe_free_buffer,
/// 10+k set_cap(k)), every index / argument is symbolic; ends with drain-compare.
pub fn seq(s: &mut Src, cap0: usize, script: &[u64]) {
    let mut real = Inflights::new(cap0);
    let mut m = Model::new(cap0);
    let mut i = 0;
    while i < script.len() {
        let k = script[i];
        if k >= 10 {
            real.set_cap((k - 10) as usize);
            m.ecap = (k - 10) as usize;
        } else {
            apply_op(k, s, &mut real, &mut m);
        }
        check_obs(&real, &m);
        i += 1;
    }
    vcover!(m.len >= 1, "window non-empty at end");
    drain_compare(&mut real, &mut m);
    std::mem::forget(real);
}

/// Induction base: `Inflights::new(cap)` is an II-state denoting the empty FIFO.
pub fn base(_s: &mut Src) {
    let mut cap = 0;
    while cap <= 5 {
        let real = Inflights::new(cap);
        let m = Model::new(cap);
        check_obs(&real, &m);
        check_raw(&real, &m);
        let (start, count, buf, c, pending) = real.verif_raw();
        assert!(start == 0 && count == 0 && buf.len() == 0 && c == cap && pending.is_none());
        std::mem::forget(real);
        cap += 1;
    }
    vcover!(true, "base reached");
}

// ---------------------------------------------------------------------------------
// Inductive step from an arbitrary representation state (hook: verif_from_raw).

/// Builds a raw state.  Shape is concrete: `cap`, buffer length `blen <= cap`,
/// `allocated` (capacity 0 vs >= cap), pending shrink, `start`, `count`; the tracked
/// indexes are symbolic.  Returns None if the shape violates the representation
/// invariant II (such shapes are skipped, not assumed away).
fn raw_state(
    s: &mut Src,
    cap: usize,
    blen: usize,
    allocated: bool,
    pending: Option<usize>,
    start: usize,
    count: usize,
    slack: usize,
) -> Option<(Inflights, Model)> {
    // II (shape part)
    if blen > cap || count > cap || (cap > 0 && start >= cap) || (cap == 0 && start != 0) {
        return None;
    }
    if !allocated && (blen != 0 || count != 0 || start != 0) {
        return None;
    }
    if count == 0 && start > blen {
        return None;
    }
    if let Some(k) = pending {
        if !(k < cap && count > 0) {
            return None;
        }
    }
    let mut j = 0;
    while j < count {
        let mut p = start + j;
        if p >= cap {
            p -= cap;
        }
        if p >= blen {
            return None; // live slot outside the initialised prefix
        }
        j += 1;
    }
    // `slack`: the allocation may be larger than `cap` (Vec::reserve over-allocates when
    // set_cap grows an allocated window; II only requires capacity >= cap)
    let mut buf: Vec<u64> = if allocated {
        Vec::with_capacity(cap + slack)
    } else {
        Vec::new()
    };
    let mut vals = [0u64; MAXQ];
    let mut i = 0;
    while i < blen {
        vals[i] = s.u64();
        i += 1;
    }
    buf.extend_from_slice(&vals[..blen]);
    let mut m = Model::new(pending.unwrap_or(cap));
    let mut j = 0;
    while j < count {
        let mut p = start + j;
        if p >= cap {
            p -= cap;
        }
        if j > 0 {
            vassume!(vals[p] > m.q[j - 1]); // strictly increasing (caller contract)
        }
        m.q[j] = vals[p];
        j += 1;
    }
    m.len = count;
    Some((
        Inflights::verif_from_raw(start, count, buf, cap, pending),
        m,
    ))
}

fn check_raw(real: &Inflights, m: &Model) {
    let (start, count, buf, cap, pending) = real.verif_raw();
    assert!(count == m.len);
    assert!(pending.unwrap_or(cap) == m.ecap, "effective capacity differs");
    // II on the post-state
    assert!(count <= cap);
    assert!(cap == 0 || start < cap);
    assert!(cap != 0 || start == 0);
    assert!(buf.len() <= cap);
    if buf.capacity() == 0 {
        assert!(start == 0 && count == 0);
    } else {
        assert!(buf.capacity() >= cap);
    }
    if let Some(k) = pending {
        assert!(k < cap && count > 0, "pending shrink outlived the drain");
    }
    if count == 0 {
        assert!(start <= buf.len());
    }
    let mut j = 0;
    while j < count {
        let mut p = start + j;
        if p >= cap {
            p -= cap;
        }
        assert!(p < buf.len());
        assert!(buf[p] == m.q[j], "tracked index lost / duplicated / reordered");
        j += 1;
    }
}

/// One op of every kind (incl. set_cap(k) for every k in 0..=kmax) from every II-state
/// with the given cap / buffer length / allocation / pending shrink: all ring rotations
/// (`start`) and fill levels (`count`) are walked concretely, contents are symbolic.
pub fn step(s: &mut Src, cap: usize, blen: usize, allocated: bool, pending: Option<usize>, kmax: usize) {
    step_slack(s, cap, blen, allocated, pending, kmax, 0)
}

/// `step` from states whose buffer allocation exceeds `cap` by `slack` slots.
pub fn step_slack(s: &mut Src, cap: usize, blen: usize, allocated: bool, pending: Option<usize>, kmax: usize, slack: usize) {
    let mut states = 0usize;
    // reachability witnesses: `exp_*` are concrete (does the shape admit the event at all),
    // `saw_*` symbolic; the cover is `!exp || saw` so that it is satisfiable for every shape.
    let (mut exp_add, mut saw_add) = (false, false);
    let (mut exp_part, mut saw_part) = (false, false);
    let (mut exp_drain, mut saw_drain) = (false, false);
    let mut start = 0;
    while start < cap.max(1) {
        let mut count = 0;
        while count <= cap {
            let mut kind = 0;
            while kind < 5 + kmax + 1 {
                if let Some((mut real, mut m)) = raw_state(s, cap, blen, allocated, pending, start, count, slack) {
                    states += 1;
                    if kind < 5 {
                        apply_op(kind as u64, s, &mut real, &mut m);
                    } else {
                        let k = kind - 5;
                        real.set_cap(k);
                        m.ecap = k;
                    }
                    check_obs(&real, &m);
                    check_raw(&real, &m);
                    if kind == 0 && count + 1 <= pending.unwrap_or(cap) {
                        exp_add = true;
                        saw_add |= m.len == count + 1;
                    }
                    if kind == 1 && count >= 2 {
                        exp_part = true;
                        saw_part |= m.len == 1;
                    }
                    if kind == 1 && count == 1 {
                        exp_drain = true;
                        saw_drain |= m.len == 0;
                    }
                    std::mem::forget(real);
                }
                kind += 1;
            }
            count += 1;
        }
        start += 1;
    }
    assert!(states > 0, "no II-state of this shape exists: harness parameters are wrong");
    vcover!(!exp_add || saw_add, "add happened (where the shape admits it)");
    vcover!(!exp_part || saw_part, "free_to freed a strict prefix (where the shape admits it)");
    vcover!(!exp_drain || saw_drain, "free_to drained the window (where the shape admits it)");
}

/// All II-states of capacity `cap`: every buffer length, allocation status and pending
/// shrink, walked concretely around `step`.
pub fn step_all(s: &mut Src, cap: usize, kmax: usize) {
    let mut blen = 0;
    while blen <= cap {
        // pending = None, then Some(0..cap)
        let mut pi = 0;
        while pi <= cap {
            let pending = if pi == 0 { None } else { Some(pi - 1) };
            // a pending shrink needs count > 0, hence blen > 0
            if pending.is_none() || blen > 0 {
                step(s, cap, blen, true, pending, kmax);
            }
            pi += 1;
        }
        blen += 1;
    }
    step(s, cap, 0, false, None, kmax);
}
