//! Leader-side steps: MsgAppendResponse (ack / reject), served properties C04 (commit
//! rule), C13 (flow control, well-formed appends), C05-lao (leader append-only), C10
//! (probing makes progress), C17 (transfer completes only on a full log).

use crate::inp::Src;
use crate::oracle::*;
use crate::state::*;
use crate::vstore::LMAX;
use raft::eraftpb::{Message, MessageType};
use raft::{ProgressState, StateRole};

fn snapshot_log(r: &raft::Raft<crate::vstore::VStore>, g: &Ghost) {
    assert!(r.raft_log.last_index() >= g.last(), "leader log shrank");
    let mut i = g.base;
    while i <= g.last() {
        assert!(r.raft_log.term(i).ok() == g.term_at(i), "leader rewrote its own log");
        i += 1;
    }
}

/// Ack (reject = false) or rejection of an append, from peer `from`, at the leader's term.
/// `idx_off`: m.index; for rejections `hint_off` / `hint_term` are the follower's hint.
pub fn appresp_step(s: &mut Src, sh: &Shape, from: u64, idx_off: u64, reject: bool, hint_off: u64, hint_term: u64, transfer: bool, expect_commit: bool) {
    let (mut r, g) = mk_raft(s, sh);
    if transfer {
        r.lead_transferee = Some(from);
    }
    let mut m = msg(MessageType::MsgAppendResponse, from, r.term);
    m.index = sh.base + idx_off;
    m.reject = reject;
    m.reject_hint = sh.base + hint_off;
    m.log_term = hint_term;
    m.commit = s.u64();
    let p0 = r.prs().get(from).unwrap().clone();
    let other = if from == 2 { 3 } else { 2 };
    let o0 = r.prs().get(other).unwrap().clone();
    let me0 = r.prs().get(ME).unwrap().clone();
    let (term0, commit0) = (r.term, g.committed);
    let mindex = m.index;

    let res = r.step(m);
    assert!(res.is_ok());

    // stays leader at the same term, log append-only (C05-lao)
    assert!(r.state == StateRole::Leader && r.term == term0 && r.leader_id == ME);
    assert!(r.raft_log.last_index() == g.last());
    snapshot_log(&r, &g);
    // C04-ack: only the sender's matched may rise, and only to the acknowledged index
    let p1 = r.prs().get(from).unwrap();
    if reject {
        assert!(p1.matched == p0.matched, "rejection moved matched");
    } else {
        let exp = if mindex > p0.matched { mindex } else { p0.matched };
        assert!(p1.matched == exp, "matched after ack");
    }
    assert!(r.prs().get(other).unwrap().matched == o0.matched, "another peer's matched moved");
    assert!(r.prs().get(ME).unwrap().matched == me0.matched, "leader's own matched moved without persistence");
    assert!(p1.recent_active);
    // C04-lead: commit only own-term entries acknowledged by a joint quorum
    let c1 = r.raft_log.committed;
    assert!(c1 >= commit0, "commit decreased");
    if c1 > commit0 {
        assert!(g.term_at(c1) == Some(term0), "committed an entry of an older term by counting");
        assert!(quorum_acked(&r, sh, c1), "committed without a quorum of acknowledgements");
    } else if p1.matched > p0.matched {
        // completeness of the rule within this step: nothing committable was left behind
        let mut i = commit0 + 1;
        while i <= g.last() {
            if g.term_at(i) == Some(term0) {
                assert!(!quorum_acked(&r, sh, i), "an own-term entry acknowledged by a quorum stayed uncommitted");
            }
            i += 1;
        }
    }
    check_leader_msgs(&r, sh);
    check_progress(&r, sh);
    // C10(b): a rejection at the probed index strictly lowers next_idx (probing terminates)
    if reject && p0.state == ProgressState::Probe && mindex == p0.next_idx - 1 {
        assert!(p1.next_idx <= p0.next_idx && p1.next_idx > p1.matched);
        let (_, appends, snaps) = count_to(&r, from);
        assert!(appends + snaps >= 1 || p1.state == ProgressState::Snapshot, "probe not re-sent after rejection");
    }
    // C13: while probing at most one entry-carrying append is outstanding
    let (we, _, _) = count_to(&r, from);
    if p1.state == ProgressState::Probe {
        assert!(we <= 1, "more than one entry-carrying append while probing");
        if we == 1 {
            assert!(p1.paused, "probe not paused after an entry-carrying append");
        }
    }
    if p0.state == ProgressState::Snapshot && !reject {
        // C13 / C15: a peer leaves the Snapshot state only once it has acknowledged the snapshot index
        let updated = mindex > p0.matched;
        let caught_up = updated && mindex >= p0.pending_snapshot;
        assert!((p1.state == ProgressState::Snapshot) == !caught_up, "left / kept the Snapshot state wrongly");
        if caught_up {
            assert!(p1.next_idx > p0.pending_snapshot && p1.next_idx > p1.matched);
        }
    }
    if p1.state == ProgressState::Snapshot && p0.state == ProgressState::Snapshot {
        assert!(count_to(&r, from).1 == 0, "append sent while a snapshot is outstanding");
    }
    // C17: transfer
    if !transfer {
        let mut k = 0;
        while k < r.msgs.len() {
            assert!(r.msgs[k].get_msg_type() != MessageType::MsgTimeoutNow);
            k += 1;
        }
    }
    vcover!(!expect_commit || c1 > commit0, "commit advanced by the ack");
    assert!(expect_commit || c1 == commit0, "scenario designed not to commit did commit");
    let stale = (!reject && mindex <= p0.matched) || (reject && p0.state != ProgressState::Replicate && mindex + 1 != p0.next_idx);
    vcover!(stale || reject || p1.matched > p0.matched, "matched advanced");
    vcover!(stale || p1.state == ProgressState::Snapshot || r.msgs.len() >= 1, "something sent");
    if stale {
        assert!(r.msgs.is_empty() && p1.next_idx == p0.next_idx && p1.state == p0.state, "stale response had an effect");
    }
    forget(r);
}

// =====================================================================================
// Other leader inputs.  Common post-condition for any step that leaves the node leader.

pub struct Pre {
    pub term: u64,
    pub commit: u64,
    pub last: u64,
}

pub fn leader_post(r: &raft::Raft<crate::vstore::VStore>, g: &Ghost, sh: &Shape, appended: u64) {
    assert!(r.term >= g.term);
    if r.state == StateRole::Leader {
        assert!(r.term == g.term && r.leader_id == ME);
        // C05: leader append-only
        assert!(r.raft_log.last_index() == g.last() + appended, "leader log length");
        snapshot_log(r, g);
        let mut i = g.last() + 1;
        while i <= r.raft_log.last_index() {
            assert!(r.raft_log.term(i).ok() == Some(g.term), "leader appended an entry of another term");
            i += 1;
        }
        // C04: commit rule
        let c1 = r.raft_log.committed;
        assert!(c1 >= g.committed, "commit decreased");
        if c1 > g.committed {
            assert!(r.raft_log.term(c1).ok() == Some(g.term), "committed an entry of an older term by counting");
            assert!(quorum_acked(r, sh, c1), "committed without a quorum of acknowledgements");
        }
        check_leader_msgs(r, sh);
        check_progress(r, sh);
    } else {
        assert!(r.raft_log.last_index() == g.last());
        snapshot_log(r, g);
        assert!(r.raft_log.committed == g.committed);
        assert_progress_reset(r, sh);
    }
}

/// MsgHeartbeatResponse from `from` (no read-index context): C10(a) unstick, C13.
pub fn hbresp_step(s: &mut Src, sh: &Shape, from: u64) {
    let (mut r, g) = mk_raft(s, sh);
    let mut m = msg(MessageType::MsgHeartbeatResponse, from, r.term);
    m.commit = s.u64();
    let p0 = r.prs().get(from).unwrap().clone();
    let was_full = p0.state == ProgressState::Replicate && p0.ins.full();
    let res = r.step(m);
    assert!(res.is_ok());
    leader_post(&r, &g, sh, 0);
    assert!(r.state == StateRole::Leader);
    let p1 = r.prs().get(from).unwrap();
    assert!(p1.recent_active);
    assert!(p1.matched == p0.matched, "heartbeat response moved matched");
    let (_, appends, snaps) = count_to(&r, from);
    // C10(a): a follower that is behind is sent something unless a snapshot is outstanding
    if p0.matched < g.last() {
        match p0.state {
            ProgressState::Snapshot => assert!(appends + snaps == 0, "sent while snapshot outstanding"),
            ProgressState::Probe => assert!(appends + snaps == 1, "paused probe not resumed by heartbeat response"),
            ProgressState::Replicate => {
                assert!(appends + snaps == 1, "replicating follower not sent an append after heartbeat response");
                if was_full {
                    assert!(p1.ins.count() <= sh.max_inflight, "window overflow");
                }
            }
        }
    } else {
        assert!(appends + snaps == 0, "append to a follower that has everything");
    }
    vcover!(true, "done");
    forget(r);
}

/// MsgBeat / MsgCheckQuorum / MsgUnreachable / MsgSnapStatus (local inputs).
/// kind: 1 beat, 2 check-quorum, 3 unreachable(from), 4 snap-status(from, reject symbolic)
pub fn local_step(s: &mut Src, sh: &Shape, kind: u8, from: u64) {
    let (mut r, g) = mk_raft(s, sh);
    let t = match kind {
        1 => MessageType::MsgBeat,
        2 => MessageType::MsgCheckQuorum,
        3 => MessageType::MsgUnreachable,
        _ => MessageType::MsgSnapStatus,
    };
    let mut m = msg(t, from, 0);
    let rej = s.bool();
    m.reject = rej;
    let p0 = r.prs().get(from).map(|p| p.clone());
    // oracle for check-quorum: self + recently active voters form a joint quorum
    let active_quorum = {
        let half = |set: &[u64]| -> bool {
            if set.is_empty() {
                return true;
            }
            let mut c = 0;
            let mut i = 0;
            while i < set.len() {
                let id = set[i];
                if id == ME || r.prs().get(id).map_or(false, |p| p.recent_active) {
                    c += 1;
                }
                i += 1;
            }
            c >= set.len() / 2 + 1
        };
        half(sh.voters) && half(sh.outgoing)
    };
    let res = r.step(m);
    assert!(res.is_ok());
    leader_post(&r, &g, sh, 0);
    match kind {
        1 => {
            assert!(r.state == StateRole::Leader);
            // one heartbeat per peer, nothing else
            let (ids, n) = sh.ids();
            assert!(r.msgs.len() == n - 1, "one heartbeat per peer");
            let mut k = 0;
            while k < r.msgs.len() {
                assert!(r.msgs[k].get_msg_type() == MessageType::MsgHeartbeat);
                k += 1;
            }
        }
        2 => {
            // C16-cq: steps down iff the recently active set (incl. self) is not a quorum
            assert!((r.state == StateRole::Leader) == active_quorum, "check-quorum verdict");
            if r.state != StateRole::Leader {
                assert!(r.state == StateRole::Follower && r.term == g.term && r.leader_id == 0);
            } else {
                // recent_active is reset for the next round
                let (ids, n) = sh.ids();
                let mut i = 0;
                while i < n {
                    let p = r.prs().get(ids[i]).unwrap();
                    assert!(p.recent_active == (ids[i] == ME));
                    i += 1;
                }
            }
            assert!(r.msgs.is_empty());
        }
        3 => {
            let p1 = r.prs().get(from).unwrap();
            let p0 = p0.unwrap();
            if p0.state == ProgressState::Replicate {
                assert!(p1.state == ProgressState::Probe && p1.next_idx == p0.matched + 1, "unreachable must fall back to probing");
            } else {
                assert!(p1.state == p0.state);
            }
            assert!(r.msgs.is_empty());
        }
        _ => {
            let p1 = r.prs().get(from).unwrap();
            let p0 = p0.unwrap();
            if p0.state == ProgressState::Snapshot {
                // C15 / C10(c): resume probing right after the snapshot (or after matched on failure)
                assert!(p1.state == ProgressState::Probe && p1.paused);
                let exp = if rej {
                    p0.matched + 1
                } else if p0.pending_snapshot + 1 > p0.matched + 1 {
                    p0.pending_snapshot + 1
                } else {
                    p0.matched + 1
                };
                assert!(p1.next_idx == exp, "next_idx after snapshot report");
                assert!(p1.pending_request_snapshot == 0);
            } else {
                assert!(p1.state == p0.state && p1.next_idx == p0.next_idx);
            }
            assert!(r.msgs.is_empty());
        }
    }
    vcover!(kind != 2 || active_quorum || r.state != StateRole::Leader, "stepped down");
    forget(r);
}

/// MsgPropose on a leader.  `kinds[i]`: 0 normal entry (payload of `dlen` bytes), 1 V1
/// conf change (add node 4), 2 V2 leave-joint (empty), 3 V2 explicit enter-joint (add 4,
/// remove 3).  `pending_conf_off`: pending_conf_index (offset).  `transfer`: a leadership
/// transfer is in progress.  C09-filter, C13-unc, C17, C05-lao.
pub fn propose_step(s: &mut Src, sh: &Shape, kinds: &[u8], dlen: usize, pending_conf_off: u64, transfer: bool, max_uncommitted: u64, uncommitted: usize) {
    use prost::Message as _;
    use raft::eraftpb::{ConfChange, ConfChangeSingle, ConfChangeTransition, ConfChangeType, ConfChangeV2, Entry, EntryType};
    let (mut r, g) = mk_raft(s, sh);
    r.pending_conf_index = sh.base + pending_conf_off;
    if transfer {
        r.lead_transferee = Some(2);
    }
    let mut pv = r.verif_private();
    pv.max_uncommitted_size = max_uncommitted as usize;
    pv.uncommitted_size = uncommitted;
    r.verif_set_private(&pv);
    let mut m = msg(MessageType::MsgPropose, ME, 0);
    let mut i = 0;
    while i < kinds.len() {
        let mut e = Entry::default();
        match kinds[i] {
            0 => {
                e.data = vec![s.u8(); dlen];
            }
            1 => {
                let mut cc = ConfChange::default();
                cc.set_change_type(ConfChangeType::AddNode);
                cc.node_id = 4;
                e.set_entry_type(EntryType::EntryConfChange);
                e.data = cc.encode_to_vec();
            }
            2 => {
                let cc = ConfChangeV2::default();
                e.set_entry_type(EntryType::EntryConfChangeV2);
                e.data = cc.encode_to_vec();
            }
            _ => {
                let mut cc = ConfChangeV2::default();
                cc.set_transition(ConfChangeTransition::Explicit);
                let mut a = ConfChangeSingle::default();
                a.set_change_type(ConfChangeType::AddNode);
                a.node_id = 4;
                let mut b = ConfChangeSingle::default();
                b.set_change_type(ConfChangeType::RemoveNode);
                b.node_id = 3;
                cc.changes.push(a);
                cc.changes.push(b);
                e.set_entry_type(EntryType::EntryConfChangeV2);
                e.data = cc.encode_to_vec();
            }
        }
        m.entries.push(e);
        i += 1;
    }
    let joint = !sh.outgoing.is_empty();
    let applied = g.applied;
    let pci0 = r.pending_conf_index;
    let total: usize = {
        let mut t = 0;
        let mut i = 0;
        while i < m.entries.len() {
            t += m.entries[i].data.len();
            i += 1;
        }
        t
    };
    let res = r.step(m);
    // oracle
    let no_limit = max_uncommitted == u64::MAX;
    let admit = no_limit || total == 0 || uncommitted == 0 || (total + uncommitted) as u64 <= max_uncommitted;
    // NB: the size check runs on the entries *after* refused conf changes were blanked; every
    // scenario below either has no conf change or no limit, so `total` is exact.
    if transfer {
        assert!(res == Err(raft::Error::ProposalDropped), "proposal accepted during leadership transfer");
        leader_post(&r, &g, sh, 0);
        assert!(r.msgs.is_empty() && r.lead_transferee == Some(2));
    } else if !admit {
        assert!(res == Err(raft::Error::ProposalDropped), "over-limit proposal accepted");
        leader_post(&r, &g, sh, 0);
        assert!(r.uncommitted_size() == uncommitted);
    } else {
        assert!(res.is_ok(), "admissible proposal refused");
        let n = kinds.len() as u64;
        leader_post(&r, &g, sh, n);
        if !no_limit {
            assert!(r.uncommitted_size() == uncommitted + total, "uncommitted size accounting");
        }
        // C09-filter: walk the appended entries
        let mut pci = pci0;
        let mut k = 0;
        while k < kinds.len() {
            let idx = g.last() + 1 + k as u64;
            let ents = r.raft_log.slice(idx, idx + 1, None, raft::GetEntriesContext::empty(false)).unwrap();
            let e = &ents[0];
            let is_cc = kinds[k] != 0;
            if is_cc {
                let want_leave = kinds[k] == 2;
                let refused = pci > applied || (joint && !want_leave) || (!joint && want_leave);
                if refused {
                    assert!(e.get_entry_type() == EntryType::EntryNormal && e.data.is_empty(), "refused conf change not blanked");
                } else {
                    assert!(e.get_entry_type() != EntryType::EntryNormal, "admissible conf change blanked");
                    pci = idx;
                }
            } else {
                assert!(e.get_entry_type() == EntryType::EntryNormal && e.data.len() == dlen);
            }
            k += 1;
        }
        assert!(r.pending_conf_index == pci, "pending_conf_index after proposal");
        // at most one membership entry beyond the applied index
        let mut cnt = 0;
        let mut idx = applied + 1;
        while idx <= r.raft_log.last_index() {
            if idx > g.last() {
                let ents = r.raft_log.slice(idx, idx + 1, None, raft::GetEntriesContext::empty(false)).unwrap();
                if ents[0].get_entry_type() != EntryType::EntryNormal {
                    cnt += 1;
                }
            }
            idx += 1;
        }
        let prior = if pci0 > applied { 1 } else { 0 };
        assert!(cnt + prior <= 1, "two membership entries beyond the applied index");
    }
    vcover!(true, "done");
    forget(r);
}

/// MsgTransferLeader(from = target) on a leader.  C17.
pub fn transfer_step(s: &mut Src, sh: &Shape, target: u64, pending: Option<u64>) {
    let (mut r, g) = mk_raft(s, sh);
    r.lead_transferee = pending;
    let ee0 = r.election_elapsed;
    let m = msg(MessageType::MsgTransferLeader, target, 0);
    let tracked = sh.tracked(target);
    let learner = has(sh.learners, target);
    let p0 = r.prs().get(target).map(|p| p.clone());
    let res = r.step(m);
    assert!(res.is_ok());
    leader_post(&r, &g, sh, 0);
    assert!(r.state == StateRole::Leader);
    let (_, appends, snaps) = if tracked { count_to(&r, target) } else { (0, 0, 0) };
    if !tracked || learner {
        // unknown node / learner: ignored entirely
        assert!(r.lead_transferee == pending && r.msgs.is_empty() && r.election_elapsed == ee0, "transfer to learner/unknown not ignored");
    } else if pending == Some(target) {
        assert!(r.lead_transferee == pending && r.msgs.is_empty());
    } else if target == ME {
        // at most cancels a pending transfer
        assert!(r.lead_transferee.is_none() && r.msgs.is_empty());
    } else {
        assert!(r.lead_transferee == Some(target) && r.election_elapsed == 0);
        let p0 = p0.unwrap();
        let mut tn = 0;
        let mut k = 0;
        while k < r.msgs.len() {
            if r.msgs[k].get_msg_type() == MessageType::MsgTimeoutNow {
                tn += 1;
            }
            k += 1;
        }
        if p0.matched == g.last() {
            assert!(tn == 1, "up-to-date target not told to campaign");
        } else {
            assert!(tn == 0, "MsgTimeoutNow to a lagging target");
        }
    }
    vcover!(true, "done");
    forget(r);
}

/// tick() on a leader: heartbeat cadence, check-quorum, transfer abort (C10e, C16, C17).
pub fn leader_tick(s: &mut Src, sh: &Shape, ee: usize, he: usize, transfer: bool) {
    let (mut r, g) = mk_raft(s, sh);
    r.election_elapsed = ee;
    let mut pv = r.verif_private();
    pv.heartbeat_elapsed = he;
    r.verif_set_private(&pv);
    if transfer {
        r.lead_transferee = Some(2);
    }
    let cq = r.check_quorum;
    r.tick();
    leader_post(&r, &g, sh, 0);
    let timeout = ee + 1 >= ELECTION_TICK;
    if timeout {
        assert!(r.lead_transferee.is_none(), "transfer not abandoned after an election timeout");
    } else {
        assert!(r.lead_transferee == if transfer { Some(2) } else { None });
    }
    if r.state == StateRole::Leader {
        let beat = he + 1 >= HEARTBEAT_TICK;
        let mut hb = 0;
        let mut k = 0;
        while k < r.msgs.len() {
            if r.msgs[k].get_msg_type() == MessageType::MsgHeartbeat {
                hb += 1;
            }
            k += 1;
        }
        let (_, n) = sh.ids();
        assert!(hb == if beat { n - 1 } else { 0 }, "heartbeat cadence");
        assert!(r.election_elapsed == if timeout { 0 } else { ee + 1 });
    } else {
        assert!(timeout && cq, "leader stepped down on a tick without check-quorum timeout");
    }
    vcover!(true, "done");
    forget(r);
}

/// on_persist_entries(index, term) on a leader (C04-self): own matched follows persistence
/// only, and only for entries really in stable storage with that term.
pub fn persist_step(s: &mut Src, sh: &Shape, idx_off: u64, term: u64) {
    let (mut r, g) = mk_raft(s, sh);
    let idx = sh.base + idx_off;
    let me0 = r.prs().get(ME).unwrap().matched;
    r.on_persist_entries(idx, term);
    leader_post(&r, &g, sh, 0);
    let stable_last = r.raft_log.store.last();
    let first_update = r.raft_log.unstable.offset;
    let ok = idx > g.persisted && idx < first_update && idx <= stable_last && g.term_at(idx) == Some(term);
    let p = r.raft_log.persisted;
    assert!(p == if ok { idx } else { g.persisted }, "persisted index rule");
    assert!(p <= stable_last && p < first_update, "persisted beyond what storage holds");
    let me1 = r.prs().get(ME).unwrap().matched;
    assert!(me1 == if ok && idx > me0 { idx } else { me0 }, "leader's own matched must follow persistence only");
    vcover!(true, "done");
    forget(r);
}

/// Heartbeat response from a peer whose next entries were compacted away (C15-lsnap).
/// (Targeted post-conditions only: which error kind a `Result` carries does not constant-fold
/// in CBMC, so the number of emitted messages is symbolic here and the generic message walk
/// of `leader_post` would be executed over a symbolic-length vector.)
pub fn hbresp_step_snap(s: &mut Src, sh: &Shape, from: u64, snapshot_available: bool) {
    let (mut r, g) = mk_raft(s, sh);
    if snapshot_available {
        let st = r.mut_store();
        st.snapshot_mode = 1;
        st.snapshot_index = g.committed;
        st.snapshot_term = g.term_at(g.committed).unwrap();
    }
    let m = msg(MessageType::MsgHeartbeatResponse, from, r.term);
    let p0 = r.prs().get(from).unwrap().clone();
    let term0 = r.term;
    let res = r.step(m);
    assert!(res.is_ok());
    assert!(r.state == StateRole::Leader && r.term == term0 && r.raft_log.last_index() == g.last() && r.raft_log.committed == g.committed);
    let p1 = r.prs().get(from).unwrap();
    if snapshot_available && p0.recent_active {
        assert!(r.msgs.len() == 1, "exactly one message: the snapshot");
        let q = &r.msgs[0];
        assert!(q.get_msg_type() == MessageType::MsgSnapshot && q.to == from && q.term == term0, "needed entries are compacted: a snapshot must be sent");
        let md = q.snapshot.as_ref().unwrap().metadata.as_ref().unwrap();
        assert!(md.index == g.committed && Some(md.term) == g.term_at(g.committed), "snapshot metadata is not a committed position of the leader");
        assert!(p1.state == ProgressState::Snapshot && p1.pending_snapshot == g.committed && p1.ins.count() == 0);
    } else {
        assert!(r.msgs.is_empty() && p1.state == p0.state && p1.next_idx == p0.next_idx);
    }
    vcover!(true, "done");
    forget(r);
}

pub fn dbg_snap(s: &mut Src, sh: &Shape) {
    let (mut r, g) = mk_raft(s, sh);
    {
        let st = r.mut_store();
        st.snapshot_mode = 1;
        st.snapshot_index = g.committed;
        st.snapshot_term = 2;
    }
    let m = msg(MessageType::MsgHeartbeatResponse, 2, r.term);
    let res = r.step(m);
    if r.msgs.len() != 1 {
        assert!(crate::c02::marker_a() == 3);
    }
    if r.prs().get(2).unwrap().state != ProgressState::Snapshot {
        assert!(crate::c02::marker_b() == 3);
    }
    if r.prs().get(2).unwrap().pending_snapshot != 3 {
        assert!(crate::c02::marker_c() == 3);
    }
    forget(r);
}

/// batch_append on: an append for `from` is already queued in `msgs` (entries 1..=3 from prev 0);
/// a delayed ack of index 1 flips the peer from Probe to Replicate and rewinds next_idx to 2.
/// The entries sent next (2..) overlap the queued ones: they must go into a message of their
/// own, never be glued onto the queued one (C05 / C13: every append is a contiguous slice).
pub fn appresp_batch_step(s: &mut Src, sh: &Shape, from: u64) {
    use raft::eraftpb::Entry;
    let (mut r, g) = mk_raft(s, sh);
    let mut pv = r.verif_private();
    pv.batch_append = true;
    r.verif_set_private(&pv);
    // the queued append: prev (0, 0), entries 1..=last with the log's terms
    let mut q = Message::default();
    q.set_msg_type(MessageType::MsgAppend);
    q.from = ME;
    q.to = from;
    q.term = r.term;
    q.index = g.base;
    q.log_term = g.snap_term;
    q.commit = g.committed;
    let mut i = g.base + 1;
    while i <= g.last() {
        let mut e = Entry::default();
        e.index = i;
        e.term = g.term_at(i).unwrap();
        q.entries.push(e);
        i += 1;
    }
    r.msgs.push(q);
    let mut m = msg(MessageType::MsgAppendResponse, from, r.term);
    m.index = g.base + 1;
    let res = r.step(m);
    assert!(res.is_ok());
    assert!(r.state == StateRole::Leader);
    check_leader_msgs(&r, sh);
    check_progress(&r, sh);
    vcover!(r.msgs.len() >= 2, "a second message was needed");
    forget(r);
}
