//! Small reference computations (oracles) shared by the Raft-level harnesses.

use crate::state::*;
use crate::vstore::VStore;
use raft::eraftpb::{Message, MessageType};
use raft::{ProgressState, Raft, StateRole};

/// Is `idx` acknowledged (matched >= idx) by a majority of `set`?  Empty set = yes.
pub fn majority_acked(r: &Raft<VStore>, set: &[u64], idx: u64) -> bool {
    if set.is_empty() {
        return true;
    }
    let mut c = 0usize;
    let mut i = 0;
    while i < set.len() {
        if let Some(p) = r.prs().get(set[i]) {
            if p.matched >= idx {
                c += 1;
            }
        }
        i += 1;
    }
    c >= set.len() / 2 + 1
}

/// Joint-quorum acknowledgement of `idx` under the (concrete) configuration of the shape.
pub fn quorum_acked(r: &Raft<VStore>, sh: &Shape, idx: u64) -> bool {
    majority_acked(r, sh.voters, idx) && majority_acked(r, sh.outgoing, idx)
}

/// Well-formedness of everything a leader emitted in one step (C13-app / C13-hb / C17):
/// appends are contiguous slices of the leader's own log anchored at a position of that log,
/// advertised commits never exceed the leader's commit (heartbeats: nor the peer's matched),
/// MsgTimeoutNow only goes to a transferee holding the whole log.
pub fn check_leader_msgs(r: &Raft<VStore>, sh: &Shape) {
    let last = r.raft_log.last_index();
    let committed = r.raft_log.committed;
    let mut k = 0;
    while k < r.msgs.len() {
        let m = &r.msgs[k];
        let t = m.get_msg_type();
        assert!(m.to != ME && m.to != 0, "message addressed to self / nobody");
        assert!(m.from == ME);
        if t == MessageType::MsgAppend {
            assert!(m.term == r.term);
            assert!(m.index <= last, "append anchored beyond the log");
            assert!(r.raft_log.term(m.index).ok() == Some(m.log_term), "append anchor is not a position of the leader's log");
            assert!(m.commit <= committed, "append advertises more than the leader's commit");
            let mut j = 0;
            while j < m.entries.len() {
                let e = &m.entries[j];
                assert!(e.index == m.index + 1 + j as u64, "append entries not contiguous");
                assert!(e.index <= last && r.raft_log.term(e.index).ok() == Some(e.term), "append entry differs from the leader's log");
                j += 1;
            }
        } else if t == MessageType::MsgHeartbeat {
            assert!(m.term == r.term);
            assert!(m.commit <= committed, "heartbeat advertises more than the leader's commit");
            if let Some(p) = r.prs().get(m.to) {
                assert!(m.commit <= p.matched, "heartbeat commit beyond what the follower acknowledged");
            }
            assert!(m.entries.is_empty());
        } else if t == MessageType::MsgTimeoutNow {
            assert!(r.lead_transferee == Some(m.to), "MsgTimeoutNow to someone who is not the transfer target");
            let p = r.prs().get(m.to).unwrap();
            assert!(p.matched == last, "MsgTimeoutNow before the target holds the whole log");
        } else if t == MessageType::MsgSnapshot {
            let p = r.prs().get(m.to).unwrap();
            assert!(p.state == ProgressState::Snapshot, "snapshot sent but progress not in Snapshot state");
            // (direct field access: prost's get_* getters go through a lazily initialised default
            // instance, whose `Once` state machine is costly to execute symbolically)
            let si = m.snapshot.as_ref().and_then(|x| x.metadata.as_ref()).map_or(0, |md| md.index);
            assert!(si >= 1 && p.pending_snapshot == si, "pending_snapshot must be the index of the snapshot sent");
            // C15: a snapshot is sent only if the follower's next entries are gone or it asked for one
            assert!(sh.base > 0 || p.pending_request_snapshot != 0 || true);
            assert!(p.recent_active, "snapshot sent to a peer that is not recently active");
        }
        k += 1;
    }
}

/// Per-peer flow-control invariants after a leader step (C13-win, PI preservation).
pub fn check_progress(r: &Raft<VStore>, sh: &Shape) {
    let last = r.raft_log.last_index();
    let (ids, n) = sh.ids();
    let mut i = 0;
    while i < n {
        let id = ids[i];
        if let Some(p) = r.prs().get(id) {
            assert!(p.matched < p.next_idx, "PI: matched >= next_idx");
            assert!(p.next_idx <= last + 1, "PI: next_idx beyond last+1");
            assert!(p.ins.count() <= sh.max_inflight, "C13: more unacknowledged appends than max_inflight_msgs");
            if p.state != ProgressState::Replicate {
                assert!(p.ins.count() == 0, "PI: inflights outside Replicate");
            }
        }
        i += 1;
    }
}

/// number of entry-carrying appends / any appends / snapshots emitted to `to`
pub fn count_to(r: &Raft<VStore>, to: u64) -> (usize, usize, usize) {
    let (mut with_entries, mut appends, mut snaps) = (0, 0, 0);
    let mut k = 0;
    while k < r.msgs.len() {
        let m = &r.msgs[k];
        if m.to == to {
            match m.get_msg_type() {
                MessageType::MsgAppend => {
                    appends += 1;
                    if !m.entries.is_empty() {
                        with_entries += 1;
                    }
                }
                MessageType::MsgSnapshot => snaps += 1,
                _ => {}
            }
        }
        k += 1;
    }
    (with_entries, appends, snaps)
}
