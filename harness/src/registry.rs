//! The list of harnesses (one `#[kani::proof]` each + native registry).
use crate::*;
use crate::state::Shape;
use raft::StateRole;

const F21: Shape = Shape::follower3(2, 1);
const F21T: Shape = Shape::follower3(2, 1).with_terms(&[1, 2, 3]);
const L21T: c14::LogShape = c14::LogShape { base: 0, n_stable: 2, n_unstable: 1, terms: &[1, 2, 3] };
const F30: Shape = Shape::follower3(3, 0);
const F30C1: Shape = Shape::follower3(3, 0).with_commit(1).with_etypes(&[0, 0, 2]).with_terms(&[1, 2, 3]);
const F30C1N: Shape = Shape::follower3(3, 0).with_commit(1).with_etypes(&[0, 0, 0]);
const F21C1: Shape = Shape::follower3(2, 1).with_commit(1).with_terms(&[1, 2, 5]);


harnesses! {
    { selftest_fail, "SELFTEST", quick, unwind = 4, "planted violation for the witness-extraction self-test", |s| selftest::fail_branchy(s) }
    { selftest_pass, "SELFTEST", quick, unwind = 4, "trivial pass", |s| selftest::pass_trivial(s) }
    // ---------------- (pre-)vote requests: C03 / C02 / C16 ----------------
    { vote_follower_real, "C03", quick, unwind = 8,
      "one Raft::step(MsgRequestVote) on a Follower of a 3-voter group, 3-entry log (symbolic terms and entry types), symbolic term/vote/leader/commit/timers/flags/priority, message term/index/log_term/commit/commit_term/context symbolic, sender a voter or unknown id",
      |s| c03::vote_step(s, &F21, false, None) }
    { vote_follower_pre, "C03", quick, unwind = 8,
      "one Raft::step(MsgRequestPreVote) on a Follower of a 3-voter group, 3-entry log (symbolic terms and entry types), symbolic term/vote/leader/commit/timers/flags/priority, message term/index/log_term/commit/commit_term/context symbolic, sender a voter or unknown id",
      |s| c03::vote_step(s, &F21, true, None) }
    { vote_candidate_real_eq_c3m, "C03", quick, unwind = 8,
      "one Raft::step(MsgRequestVote) on a Candidate (term 5) of a 3-voter group, message term 5, 3-entry log (terms [1,2,3], entry 3 a ConfChangeV2 for (pre)candidates; [1,2,5] for leaders), commit = 1, m.commit = 3 with m.commit_term = local term there (fast-forward); symbolic vote/leader/timers/flags/priority, m.index/log_term/context, sender a voter or unknown id",
      |s| c03::vote_step_x(s, &F30C1.with_role(StateRole::Candidate).with_term(5), false, Some(3), Some(5), true) }
    { vote_candidate_real_eq_c3z, "C03", thorough, unwind = 8,
      "one Raft::step(MsgRequestVote) on a Candidate (term 5) of a 3-voter group, message term 5, 3-entry log (terms [1,2,3], entry 3 a ConfChangeV2 for (pre)candidates; [1,2,5] for leaders), commit = 1, m.commit = 3 with m.commit_term = 0; symbolic vote/leader/timers/flags/priority, m.index/log_term/context, sender a voter or unknown id",
      |s| c03::vote_step_x(s, &F30C1.with_role(StateRole::Candidate).with_term(5), false, Some(3), Some(5), false) }
    { vote_candidate_real_eq_c2m, "C03", thorough, unwind = 8,
      "one Raft::step(MsgRequestVote) on a Candidate (term 5) of a 3-voter group, message term 5, 3-entry log (terms [1,2,3], entry 3 a ConfChangeV2 for (pre)candidates; [1,2,5] for leaders), commit = 1, m.commit = 2 with m.commit_term = local term there (fast-forward); symbolic vote/leader/timers/flags/priority, m.index/log_term/context, sender a voter or unknown id",
      |s| c03::vote_step_x(s, &F30C1.with_role(StateRole::Candidate).with_term(5), false, Some(2), Some(5), true) }
    { vote_candidate_real_hi_c3m, "C03", quick, unwind = 8,
      "one Raft::step(MsgRequestVote) on a Candidate (term 5) of a 3-voter group, message term 7, 3-entry log (terms [1,2,3], entry 3 a ConfChangeV2 for (pre)candidates; [1,2,5] for leaders), commit = 1, m.commit = 3 with m.commit_term = local term there (fast-forward); symbolic vote/leader/timers/flags/priority, m.index/log_term/context, sender a voter or unknown id",
      |s| c03::vote_step_x(s, &F30C1.with_role(StateRole::Candidate).with_term(5), false, Some(3), Some(7), true) }
    { vote_candidate_real_hi_c3z, "C03", thorough, unwind = 8,
      "one Raft::step(MsgRequestVote) on a Candidate (term 5) of a 3-voter group, message term 7, 3-entry log (terms [1,2,3], entry 3 a ConfChangeV2 for (pre)candidates; [1,2,5] for leaders), commit = 1, m.commit = 3 with m.commit_term = 0; symbolic vote/leader/timers/flags/priority, m.index/log_term/context, sender a voter or unknown id",
      |s| c03::vote_step_x(s, &F30C1.with_role(StateRole::Candidate).with_term(5), false, Some(3), Some(7), false) }
    { vote_candidate_real_hi_c2m, "C03", thorough, unwind = 8,
      "one Raft::step(MsgRequestVote) on a Candidate (term 5) of a 3-voter group, message term 7, 3-entry log (terms [1,2,3], entry 3 a ConfChangeV2 for (pre)candidates; [1,2,5] for leaders), commit = 1, m.commit = 2 with m.commit_term = local term there (fast-forward); symbolic vote/leader/timers/flags/priority, m.index/log_term/context, sender a voter or unknown id",
      |s| c03::vote_step_x(s, &F30C1.with_role(StateRole::Candidate).with_term(5), false, Some(2), Some(7), true) }
    { vote_candidate_real_lo_c3m, "C03", thorough, unwind = 8,
      "one Raft::step(MsgRequestVote) on a Candidate (term 5) of a 3-voter group, message term 3, 3-entry log (terms [1,2,3], entry 3 a ConfChangeV2 for (pre)candidates; [1,2,5] for leaders), commit = 1, m.commit = 3 with m.commit_term = local term there (fast-forward); symbolic vote/leader/timers/flags/priority, m.index/log_term/context, sender a voter or unknown id",
      |s| c03::vote_step_x(s, &F30C1.with_role(StateRole::Candidate).with_term(5), false, Some(3), Some(3), true) }
    { vote_candidate_pre_eq_c3m, "C03", quick, unwind = 8,
      "one Raft::step(MsgRequestPreVote) on a Candidate (term 5) of a 3-voter group, message term 5, 3-entry log (terms [1,2,3], entry 3 a ConfChangeV2 for (pre)candidates; [1,2,5] for leaders), commit = 1, m.commit = 3 with m.commit_term = local term there (fast-forward); symbolic vote/leader/timers/flags/priority, m.index/log_term/context, sender a voter or unknown id",
      |s| c03::vote_step_x(s, &F30C1.with_role(StateRole::Candidate).with_term(5), true, Some(3), Some(5), true) }
    { vote_candidate_pre_eq_c3z, "C03", thorough, unwind = 8,
      "one Raft::step(MsgRequestPreVote) on a Candidate (term 5) of a 3-voter group, message term 5, 3-entry log (terms [1,2,3], entry 3 a ConfChangeV2 for (pre)candidates; [1,2,5] for leaders), commit = 1, m.commit = 3 with m.commit_term = 0; symbolic vote/leader/timers/flags/priority, m.index/log_term/context, sender a voter or unknown id",
      |s| c03::vote_step_x(s, &F30C1.with_role(StateRole::Candidate).with_term(5), true, Some(3), Some(5), false) }
    { vote_candidate_pre_eq_c2m, "C03", thorough, unwind = 8,
      "one Raft::step(MsgRequestPreVote) on a Candidate (term 5) of a 3-voter group, message term 5, 3-entry log (terms [1,2,3], entry 3 a ConfChangeV2 for (pre)candidates; [1,2,5] for leaders), commit = 1, m.commit = 2 with m.commit_term = local term there (fast-forward); symbolic vote/leader/timers/flags/priority, m.index/log_term/context, sender a voter or unknown id",
      |s| c03::vote_step_x(s, &F30C1.with_role(StateRole::Candidate).with_term(5), true, Some(2), Some(5), true) }
    { vote_candidate_pre_hi_c3m, "C03", quick, unwind = 8,
      "one Raft::step(MsgRequestPreVote) on a Candidate (term 5) of a 3-voter group, message term 7, 3-entry log (terms [1,2,3], entry 3 a ConfChangeV2 for (pre)candidates; [1,2,5] for leaders), commit = 1, m.commit = 3 with m.commit_term = local term there (fast-forward); symbolic vote/leader/timers/flags/priority, m.index/log_term/context, sender a voter or unknown id",
      |s| c03::vote_step_x(s, &F30C1.with_role(StateRole::Candidate).with_term(5), true, Some(3), Some(7), true) }
    { vote_candidate_pre_hi_c3z, "C03", thorough, unwind = 8,
      "one Raft::step(MsgRequestPreVote) on a Candidate (term 5) of a 3-voter group, message term 7, 3-entry log (terms [1,2,3], entry 3 a ConfChangeV2 for (pre)candidates; [1,2,5] for leaders), commit = 1, m.commit = 3 with m.commit_term = 0; symbolic vote/leader/timers/flags/priority, m.index/log_term/context, sender a voter or unknown id",
      |s| c03::vote_step_x(s, &F30C1.with_role(StateRole::Candidate).with_term(5), true, Some(3), Some(7), false) }
    { vote_candidate_pre_hi_c2m, "C03", thorough, unwind = 8,
      "one Raft::step(MsgRequestPreVote) on a Candidate (term 5) of a 3-voter group, message term 7, 3-entry log (terms [1,2,3], entry 3 a ConfChangeV2 for (pre)candidates; [1,2,5] for leaders), commit = 1, m.commit = 2 with m.commit_term = local term there (fast-forward); symbolic vote/leader/timers/flags/priority, m.index/log_term/context, sender a voter or unknown id",
      |s| c03::vote_step_x(s, &F30C1.with_role(StateRole::Candidate).with_term(5), true, Some(2), Some(7), true) }
    { vote_candidate_pre_lo_c3m, "C03", quick, unwind = 8,
      "one Raft::step(MsgRequestPreVote) on a Candidate (term 5) of a 3-voter group, message term 3, 3-entry log (terms [1,2,3], entry 3 a ConfChangeV2 for (pre)candidates; [1,2,5] for leaders), commit = 1, m.commit = 3 with m.commit_term = local term there (fast-forward); symbolic vote/leader/timers/flags/priority, m.index/log_term/context, sender a voter or unknown id",
      |s| c03::vote_step_x(s, &F30C1.with_role(StateRole::Candidate).with_term(5), true, Some(3), Some(3), true) }
    { vote_precandidate_real_eq_c3m, "C03", quick, unwind = 8,
      "one Raft::step(MsgRequestVote) on a PreCandidate (term 5) of a 3-voter group, message term 5, 3-entry log (terms [1,2,3], entry 3 a ConfChangeV2 for (pre)candidates; [1,2,5] for leaders), commit = 1, m.commit = 3 with m.commit_term = local term there (fast-forward); symbolic vote/leader/timers/flags/priority, m.index/log_term/context, sender a voter or unknown id",
      |s| c03::vote_step_x(s, &F30C1.with_role(StateRole::PreCandidate).with_term(5), false, Some(3), Some(5), true) }
    { vote_precandidate_real_eq_c3z, "C03", thorough, unwind = 8,
      "one Raft::step(MsgRequestVote) on a PreCandidate (term 5) of a 3-voter group, message term 5, 3-entry log (terms [1,2,3], entry 3 a ConfChangeV2 for (pre)candidates; [1,2,5] for leaders), commit = 1, m.commit = 3 with m.commit_term = 0; symbolic vote/leader/timers/flags/priority, m.index/log_term/context, sender a voter or unknown id",
      |s| c03::vote_step_x(s, &F30C1.with_role(StateRole::PreCandidate).with_term(5), false, Some(3), Some(5), false) }
    { vote_precandidate_real_eq_c2m, "C03", thorough, unwind = 8,
      "one Raft::step(MsgRequestVote) on a PreCandidate (term 5) of a 3-voter group, message term 5, 3-entry log (terms [1,2,3], entry 3 a ConfChangeV2 for (pre)candidates; [1,2,5] for leaders), commit = 1, m.commit = 2 with m.commit_term = local term there (fast-forward); symbolic vote/leader/timers/flags/priority, m.index/log_term/context, sender a voter or unknown id",
      |s| c03::vote_step_x(s, &F30C1.with_role(StateRole::PreCandidate).with_term(5), false, Some(2), Some(5), true) }
    { vote_precandidate_real_hi_c3m, "C03", quick, unwind = 8,
      "one Raft::step(MsgRequestVote) on a PreCandidate (term 5) of a 3-voter group, message term 7, 3-entry log (terms [1,2,3], entry 3 a ConfChangeV2 for (pre)candidates; [1,2,5] for leaders), commit = 1, m.commit = 3 with m.commit_term = local term there (fast-forward); symbolic vote/leader/timers/flags/priority, m.index/log_term/context, sender a voter or unknown id",
      |s| c03::vote_step_x(s, &F30C1.with_role(StateRole::PreCandidate).with_term(5), false, Some(3), Some(7), true) }
    { vote_precandidate_real_hi_c3z, "C03", thorough, unwind = 8,
      "one Raft::step(MsgRequestVote) on a PreCandidate (term 5) of a 3-voter group, message term 7, 3-entry log (terms [1,2,3], entry 3 a ConfChangeV2 for (pre)candidates; [1,2,5] for leaders), commit = 1, m.commit = 3 with m.commit_term = 0; symbolic vote/leader/timers/flags/priority, m.index/log_term/context, sender a voter or unknown id",
      |s| c03::vote_step_x(s, &F30C1.with_role(StateRole::PreCandidate).with_term(5), false, Some(3), Some(7), false) }
    { vote_precandidate_real_hi_c2m, "C03", thorough, unwind = 8,
      "one Raft::step(MsgRequestVote) on a PreCandidate (term 5) of a 3-voter group, message term 7, 3-entry log (terms [1,2,3], entry 3 a ConfChangeV2 for (pre)candidates; [1,2,5] for leaders), commit = 1, m.commit = 2 with m.commit_term = local term there (fast-forward); symbolic vote/leader/timers/flags/priority, m.index/log_term/context, sender a voter or unknown id",
      |s| c03::vote_step_x(s, &F30C1.with_role(StateRole::PreCandidate).with_term(5), false, Some(2), Some(7), true) }
    { vote_precandidate_real_lo_c3m, "C03", thorough, unwind = 8,
      "one Raft::step(MsgRequestVote) on a PreCandidate (term 5) of a 3-voter group, message term 3, 3-entry log (terms [1,2,3], entry 3 a ConfChangeV2 for (pre)candidates; [1,2,5] for leaders), commit = 1, m.commit = 3 with m.commit_term = local term there (fast-forward); symbolic vote/leader/timers/flags/priority, m.index/log_term/context, sender a voter or unknown id",
      |s| c03::vote_step_x(s, &F30C1.with_role(StateRole::PreCandidate).with_term(5), false, Some(3), Some(3), true) }
    { vote_precandidate_pre_eq_c3m, "C03", quick, unwind = 8,
      "one Raft::step(MsgRequestPreVote) on a PreCandidate (term 5) of a 3-voter group, message term 5, 3-entry log (terms [1,2,3], entry 3 a ConfChangeV2 for (pre)candidates; [1,2,5] for leaders), commit = 1, m.commit = 3 with m.commit_term = local term there (fast-forward); symbolic vote/leader/timers/flags/priority, m.index/log_term/context, sender a voter or unknown id",
      |s| c03::vote_step_x(s, &F30C1.with_role(StateRole::PreCandidate).with_term(5), true, Some(3), Some(5), true) }
    { vote_precandidate_pre_eq_c3z, "C03", thorough, unwind = 8,
      "one Raft::step(MsgRequestPreVote) on a PreCandidate (term 5) of a 3-voter group, message term 5, 3-entry log (terms [1,2,3], entry 3 a ConfChangeV2 for (pre)candidates; [1,2,5] for leaders), commit = 1, m.commit = 3 with m.commit_term = 0; symbolic vote/leader/timers/flags/priority, m.index/log_term/context, sender a voter or unknown id",
      |s| c03::vote_step_x(s, &F30C1.with_role(StateRole::PreCandidate).with_term(5), true, Some(3), Some(5), false) }
    { vote_precandidate_pre_eq_c2m, "C03", thorough, unwind = 8,
      "one Raft::step(MsgRequestPreVote) on a PreCandidate (term 5) of a 3-voter group, message term 5, 3-entry log (terms [1,2,3], entry 3 a ConfChangeV2 for (pre)candidates; [1,2,5] for leaders), commit = 1, m.commit = 2 with m.commit_term = local term there (fast-forward); symbolic vote/leader/timers/flags/priority, m.index/log_term/context, sender a voter or unknown id",
      |s| c03::vote_step_x(s, &F30C1.with_role(StateRole::PreCandidate).with_term(5), true, Some(2), Some(5), true) }
    { vote_precandidate_pre_hi_c3m, "C03", quick, unwind = 8,
      "one Raft::step(MsgRequestPreVote) on a PreCandidate (term 5) of a 3-voter group, message term 7, 3-entry log (terms [1,2,3], entry 3 a ConfChangeV2 for (pre)candidates; [1,2,5] for leaders), commit = 1, m.commit = 3 with m.commit_term = local term there (fast-forward); symbolic vote/leader/timers/flags/priority, m.index/log_term/context, sender a voter or unknown id",
      |s| c03::vote_step_x(s, &F30C1.with_role(StateRole::PreCandidate).with_term(5), true, Some(3), Some(7), true) }
    { vote_precandidate_pre_hi_c3z, "C03", thorough, unwind = 8,
      "one Raft::step(MsgRequestPreVote) on a PreCandidate (term 5) of a 3-voter group, message term 7, 3-entry log (terms [1,2,3], entry 3 a ConfChangeV2 for (pre)candidates; [1,2,5] for leaders), commit = 1, m.commit = 3 with m.commit_term = 0; symbolic vote/leader/timers/flags/priority, m.index/log_term/context, sender a voter or unknown id",
      |s| c03::vote_step_x(s, &F30C1.with_role(StateRole::PreCandidate).with_term(5), true, Some(3), Some(7), false) }
    { vote_precandidate_pre_hi_c2m, "C03", thorough, unwind = 8,
      "one Raft::step(MsgRequestPreVote) on a PreCandidate (term 5) of a 3-voter group, message term 7, 3-entry log (terms [1,2,3], entry 3 a ConfChangeV2 for (pre)candidates; [1,2,5] for leaders), commit = 1, m.commit = 2 with m.commit_term = local term there (fast-forward); symbolic vote/leader/timers/flags/priority, m.index/log_term/context, sender a voter or unknown id",
      |s| c03::vote_step_x(s, &F30C1.with_role(StateRole::PreCandidate).with_term(5), true, Some(2), Some(7), true) }
    { vote_precandidate_pre_lo_c3m, "C03", quick, unwind = 8,
      "one Raft::step(MsgRequestPreVote) on a PreCandidate (term 5) of a 3-voter group, message term 3, 3-entry log (terms [1,2,3], entry 3 a ConfChangeV2 for (pre)candidates; [1,2,5] for leaders), commit = 1, m.commit = 3 with m.commit_term = local term there (fast-forward); symbolic vote/leader/timers/flags/priority, m.index/log_term/context, sender a voter or unknown id",
      |s| c03::vote_step_x(s, &F30C1.with_role(StateRole::PreCandidate).with_term(5), true, Some(3), Some(3), true) }
    { vote_leader_real_eq_c3m, "C03", quick, unwind = 8,
      "one Raft::step(MsgRequestVote) on a Leader (term 5) of a 3-voter group, message term 5, 3-entry log (terms [1,2,3], entry 3 a ConfChangeV2 for (pre)candidates; [1,2,5] for leaders), commit = 1, m.commit = 3 with m.commit_term = local term there (fast-forward); symbolic vote/leader/timers/flags/priority, m.index/log_term/context, sender a voter or unknown id",
      |s| c03::vote_step_x(s, &F21C1.with_role(StateRole::Leader).with_term(5), false, Some(3), Some(5), true) }
    { vote_leader_real_eq_c3z, "C03", thorough, unwind = 8,
      "one Raft::step(MsgRequestVote) on a Leader (term 5) of a 3-voter group, message term 5, 3-entry log (terms [1,2,3], entry 3 a ConfChangeV2 for (pre)candidates; [1,2,5] for leaders), commit = 1, m.commit = 3 with m.commit_term = 0; symbolic vote/leader/timers/flags/priority, m.index/log_term/context, sender a voter or unknown id",
      |s| c03::vote_step_x(s, &F21C1.with_role(StateRole::Leader).with_term(5), false, Some(3), Some(5), false) }
    { vote_leader_real_eq_c2m, "C03", thorough, unwind = 8,
      "one Raft::step(MsgRequestVote) on a Leader (term 5) of a 3-voter group, message term 5, 3-entry log (terms [1,2,3], entry 3 a ConfChangeV2 for (pre)candidates; [1,2,5] for leaders), commit = 1, m.commit = 2 with m.commit_term = local term there (fast-forward); symbolic vote/leader/timers/flags/priority, m.index/log_term/context, sender a voter or unknown id",
      |s| c03::vote_step_x(s, &F21C1.with_role(StateRole::Leader).with_term(5), false, Some(2), Some(5), true) }
    { vote_leader_real_hi_c3m, "C03", quick, unwind = 8,
      "one Raft::step(MsgRequestVote) on a Leader (term 5) of a 3-voter group, message term 7, 3-entry log (terms [1,2,3], entry 3 a ConfChangeV2 for (pre)candidates; [1,2,5] for leaders), commit = 1, m.commit = 3 with m.commit_term = local term there (fast-forward); symbolic vote/leader/timers/flags/priority, m.index/log_term/context, sender a voter or unknown id",
      |s| c03::vote_step_x(s, &F21C1.with_role(StateRole::Leader).with_term(5), false, Some(3), Some(7), true) }
    { vote_leader_real_hi_c3z, "C03", thorough, unwind = 8,
      "one Raft::step(MsgRequestVote) on a Leader (term 5) of a 3-voter group, message term 7, 3-entry log (terms [1,2,3], entry 3 a ConfChangeV2 for (pre)candidates; [1,2,5] for leaders), commit = 1, m.commit = 3 with m.commit_term = 0; symbolic vote/leader/timers/flags/priority, m.index/log_term/context, sender a voter or unknown id",
      |s| c03::vote_step_x(s, &F21C1.with_role(StateRole::Leader).with_term(5), false, Some(3), Some(7), false) }
    { vote_leader_real_hi_c2m, "C03", thorough, unwind = 8,
      "one Raft::step(MsgRequestVote) on a Leader (term 5) of a 3-voter group, message term 7, 3-entry log (terms [1,2,3], entry 3 a ConfChangeV2 for (pre)candidates; [1,2,5] for leaders), commit = 1, m.commit = 2 with m.commit_term = local term there (fast-forward); symbolic vote/leader/timers/flags/priority, m.index/log_term/context, sender a voter or unknown id",
      |s| c03::vote_step_x(s, &F21C1.with_role(StateRole::Leader).with_term(5), false, Some(2), Some(7), true) }
    { vote_leader_real_lo_c3m, "C03", thorough, unwind = 8,
      "one Raft::step(MsgRequestVote) on a Leader (term 5) of a 3-voter group, message term 3, 3-entry log (terms [1,2,3], entry 3 a ConfChangeV2 for (pre)candidates; [1,2,5] for leaders), commit = 1, m.commit = 3 with m.commit_term = local term there (fast-forward); symbolic vote/leader/timers/flags/priority, m.index/log_term/context, sender a voter or unknown id",
      |s| c03::vote_step_x(s, &F21C1.with_role(StateRole::Leader).with_term(5), false, Some(3), Some(3), true) }
    { vote_leader_pre_eq_c3m, "C03", quick, unwind = 8,
      "one Raft::step(MsgRequestPreVote) on a Leader (term 5) of a 3-voter group, message term 5, 3-entry log (terms [1,2,3], entry 3 a ConfChangeV2 for (pre)candidates; [1,2,5] for leaders), commit = 1, m.commit = 3 with m.commit_term = local term there (fast-forward); symbolic vote/leader/timers/flags/priority, m.index/log_term/context, sender a voter or unknown id",
      |s| c03::vote_step_x(s, &F21C1.with_role(StateRole::Leader).with_term(5), true, Some(3), Some(5), true) }
    { vote_leader_pre_eq_c3z, "C03", thorough, unwind = 8,
      "one Raft::step(MsgRequestPreVote) on a Leader (term 5) of a 3-voter group, message term 5, 3-entry log (terms [1,2,3], entry 3 a ConfChangeV2 for (pre)candidates; [1,2,5] for leaders), commit = 1, m.commit = 3 with m.commit_term = 0; symbolic vote/leader/timers/flags/priority, m.index/log_term/context, sender a voter or unknown id",
      |s| c03::vote_step_x(s, &F21C1.with_role(StateRole::Leader).with_term(5), true, Some(3), Some(5), false) }
    { vote_leader_pre_eq_c2m, "C03", thorough, unwind = 8,
      "one Raft::step(MsgRequestPreVote) on a Leader (term 5) of a 3-voter group, message term 5, 3-entry log (terms [1,2,3], entry 3 a ConfChangeV2 for (pre)candidates; [1,2,5] for leaders), commit = 1, m.commit = 2 with m.commit_term = local term there (fast-forward); symbolic vote/leader/timers/flags/priority, m.index/log_term/context, sender a voter or unknown id",
      |s| c03::vote_step_x(s, &F21C1.with_role(StateRole::Leader).with_term(5), true, Some(2), Some(5), true) }
    { vote_leader_pre_hi_c3m, "C03", quick, unwind = 8,
      "one Raft::step(MsgRequestPreVote) on a Leader (term 5) of a 3-voter group, message term 7, 3-entry log (terms [1,2,3], entry 3 a ConfChangeV2 for (pre)candidates; [1,2,5] for leaders), commit = 1, m.commit = 3 with m.commit_term = local term there (fast-forward); symbolic vote/leader/timers/flags/priority, m.index/log_term/context, sender a voter or unknown id",
      |s| c03::vote_step_x(s, &F21C1.with_role(StateRole::Leader).with_term(5), true, Some(3), Some(7), true) }
    { vote_leader_pre_hi_c3z, "C03", thorough, unwind = 8,
      "one Raft::step(MsgRequestPreVote) on a Leader (term 5) of a 3-voter group, message term 7, 3-entry log (terms [1,2,3], entry 3 a ConfChangeV2 for (pre)candidates; [1,2,5] for leaders), commit = 1, m.commit = 3 with m.commit_term = 0; symbolic vote/leader/timers/flags/priority, m.index/log_term/context, sender a voter or unknown id",
      |s| c03::vote_step_x(s, &F21C1.with_role(StateRole::Leader).with_term(5), true, Some(3), Some(7), false) }
    { vote_leader_pre_hi_c2m, "C03", thorough, unwind = 8,
      "one Raft::step(MsgRequestPreVote) on a Leader (term 5) of a 3-voter group, message term 7, 3-entry log (terms [1,2,3], entry 3 a ConfChangeV2 for (pre)candidates; [1,2,5] for leaders), commit = 1, m.commit = 2 with m.commit_term = local term there (fast-forward); symbolic vote/leader/timers/flags/priority, m.index/log_term/context, sender a voter or unknown id",
      |s| c03::vote_step_x(s, &F21C1.with_role(StateRole::Leader).with_term(5), true, Some(2), Some(7), true) }
    { vote_leader_pre_lo_c3m, "C03", quick, unwind = 8,
      "one Raft::step(MsgRequestPreVote) on a Leader (term 5) of a 3-voter group, message term 3, 3-entry log (terms [1,2,3], entry 3 a ConfChangeV2 for (pre)candidates; [1,2,5] for leaders), commit = 1, m.commit = 3 with m.commit_term = local term there (fast-forward); symbolic vote/leader/timers/flags/priority, m.index/log_term/context, sender a voter or unknown id",
      |s| c03::vote_step_x(s, &F21C1.with_role(StateRole::Leader).with_term(5), true, Some(3), Some(3), true) }
    // ---------------- follower append / heartbeat: C05 / C04 / C01 ----------------
    { append_dup, "C05", quick, unwind = 8,
      "one Raft::step(MsgAppend) on a follower (3 voters; log terms [1,2,3] = 2 stable + 1 unstable; symbolic term/vote/leader/commit/applied/persisted/timers/flags; message term, commit, entry types symbolic): prev=(1,1), entry terms [2, 3] - duplicate of entries the log already holds (nothing may be truncated); post-state compared with a sequence model",
      |s| c05::append_step(s, &F21T, 1, 1, &[2, 3], c05::O_DUP) }
    { append_conf_unstable, "C05", quick, unwind = 8,
      "one Raft::step(MsgAppend) on a follower (3 voters; log terms [1,2,3] = 2 stable + 1 unstable; symbolic term/vote/leader/commit/applied/persisted/timers/flags; message term, commit, entry types symbolic): prev=(1,1), entry terms [2, 4] - conflict at index 3, inside the unstable suffix; post-state compared with a sequence model",
      |s| c05::append_step(s, &F21T, 1, 1, &[2, 4], c05::O_TRUNC) }
    { append_conf_stable, "C05", quick, unwind = 8,
      "one Raft::step(MsgAppend) on a follower (3 voters; log terms [1,2,3] = 2 stable + 1 unstable; symbolic term/vote/leader/commit/applied/persisted/timers/flags; message term, commit, entry types symbolic): prev=(1,1), entry terms [3, 3] - conflict at index 2, inside stable storage (offset moves back, persisted falls); post-state compared with a sequence model",
      |s| c05::append_step(s, &F21T, 1, 1, &[3, 3], c05::O_TRUNC) }
    { append_extend, "C05", quick, unwind = 8,
      "one Raft::step(MsgAppend) on a follower (3 voters; log terms [1,2,3] = 2 stable + 1 unstable; symbolic term/vote/leader/commit/applied/persisted/timers/flags; message term, commit, entry types symbolic): prev=(3,3), entry terms [3, 4] - pure extension after the last entry; post-state compared with a sequence model",
      |s| c05::append_step(s, &F21T, 3, 3, &[3, 4], c05::O_EXTEND) }
    { append_rej_term, "C05", quick, unwind = 8,
      "one Raft::step(MsgAppend) on a follower (3 voters; log terms [1,2,3] = 2 stable + 1 unstable; symbolic term/vote/leader/commit/applied/persisted/timers/flags; message term, commit, entry types symbolic): prev=(2,1), entry terms [2] - prev (index,term) mismatch -> reject with hint; post-state compared with a sequence model",
      |s| c05::append_step(s, &F21T, 2, 1, &[2], c05::O_REJECT) }
    { append_rej_beyond, "C05", quick, unwind = 8,
      "one Raft::step(MsgAppend) on a follower (3 voters; log terms [1,2,3] = 2 stable + 1 unstable; symbolic term/vote/leader/commit/applied/persisted/timers/flags; message term, commit, entry types symbolic): prev=(4,3), entry terms [3] - prev index beyond the last index -> reject; post-state compared with a sequence model",
      |s| c05::append_step(s, &F21T, 4, 3, &[3], c05::O_REJECT) }
    { append_empty, "C05", quick, unwind = 8,
      "one Raft::step(MsgAppend) on a follower (3 voters; log terms [1,2,3] = 2 stable + 1 unstable; symbolic term/vote/leader/commit/applied/persisted/timers/flags; message term, commit, entry types symbolic): prev=(2,2), entry terms [] - empty append (commit only); post-state compared with a sequence model",
      |s| c05::append_step(s, &F21T, 2, 2, &[], c05::O_DUP) }
    { append_prefix0, "C05", thorough, unwind = 8,
      "one Raft::step(MsgAppend) on a follower (3 voters; log terms [1,2,3] = 2 stable + 1 unstable; symbolic term/vote/leader/commit/applied/persisted/timers/flags; message term, commit, entry types symbolic): prev=(0,0), entry terms [1, 2] - from index 0, duplicate prefix; post-state compared with a sequence model",
      |s| c05::append_step(s, &F21T, 0, 0, &[1, 2], c05::O_DUP) }
    { append_conf_first, "C05", thorough, unwind = 8,
      "one Raft::step(MsgAppend) on a follower (3 voters; log terms [1,2,3] = 2 stable + 1 unstable; symbolic term/vote/leader/commit/applied/persisted/timers/flags; message term, commit, entry types symbolic): prev=(0,0), entry terms [2, 2] - conflict at index 1 (requires commit = 0); post-state compared with a sequence model",
      |s| c05::append_step(s, &F21T, 0, 0, &[2, 2], c05::O_TRUNC) }
    { append_extend_gap, "C05", thorough, unwind = 8,
      "one Raft::step(MsgAppend) on a follower (3 voters; log terms [1,2,3] = 2 stable + 1 unstable; symbolic term/vote/leader/commit/applied/persisted/timers/flags; message term, commit, entry types symbolic): prev=(2,2), entry terms [3, 5] - matching entry then extension with a term jump; post-state compared with a sequence model",
      |s| c05::append_step(s, &F21T, 2, 2, &[3, 5], c05::O_EXTEND) }
    { append_shorter_dup, "C05", thorough, unwind = 8,
      "one Raft::step(MsgAppend) on a follower (3 voters; log terms [1,2,3] = 2 stable + 1 unstable; symbolic term/vote/leader/commit/applied/persisted/timers/flags; message term, commit, entry types symbolic): prev=(0,0), entry terms [1] - single duplicate entry far below the tail; post-state compared with a sequence model",
      |s| c05::append_step(s, &F21T, 0, 0, &[1], c05::O_DUP) }
    { append_rej_hint_walk, "C05", thorough, unwind = 8,
      "one Raft::step(MsgAppend) on a follower (3 voters; log terms [1,2,3] = 2 stable + 1 unstable; symbolic term/vote/leader/commit/applied/persisted/timers/flags; message term, commit, entry types symbolic): prev=(3,2), entry terms [] - reject whose hint walks back over larger terms; post-state compared with a sequence model",
      |s| c05::append_step(s, &F21T, 3, 2, &[], c05::O_REJECT) }
    { heartbeat_f21, "C05", quick, unwind = 10,
      "one Raft::step(MsgHeartbeat) on a follower: commit rule, echo of context, log untouched, stale-term reply rule",
      |s| c05::heartbeat_step(s, &F21) }
    // ---------------- C09 campaign gating ----------------
    { hup_f30_pending, "C09", quick, unwind = 8,
      "Raft::step(MsgHup) on a follower (3 voters, log of 3, applied=1, commit=3, entry 3 is a ConfChangeV2): must not campaign; symbolic term/vote/leader/timers/flags",
      |s| c09::hup_step(s, &F30.with_applied(1).with_commit(3).with_etypes(&[0, 0, 2]), 0) }
    { hup_f30_clear, "C09", quick, unwind = 8,
      "same with only normal entries in (applied, commit]: campaigns (pre-vote or vote per flag), requests carry true last index/term/commit",
      |s| c09::hup_step(s, &F30.with_applied(1).with_commit(3).with_etypes(&[1, 0, 0]), 0) }
    // ---------------- C14 RaftLog ----------------
    { dbg1, "DBG", quick, unwind = 10, "dbg", |s| c14::dbg1(s, &L21T) }
    { dbg2, "DBG", quick, unwind = 10, "dbg", |s| c14::dbg2(s, &L21T) }
    { dbg_a, "DBG", quick, unwind = 5, "dbg", |s| c14::dbg_a(s) }
    { dbg_b, "DBG", quick, unwind = 5, "dbg", |s| c14::dbg_b(s) }
    { dbg_c, "DBG", quick, unwind = 5, "dbg", |s| c14::dbg_c(s) }
    { dbg_d, "DBG", quick, unwind = 5, "dbg", |s| c14::dbg_d(s, &L21T) }
    { dbg_e, "DBG", quick, unwind = 5, "dbg", |s| c14::dbg_e(s, &L21T) }
    { dbg_f, "DBG", quick, unwind = 5, "dbg", |s| c14::dbg_f(s, &L21T) }
    { dbg3, "DBG", quick, unwind = 5, "dbg", |s| c14::dbg3(s, &L21T) }
    { dbg4, "DBG", quick, unwind = 5, "dbg", |s| c14::dbg4(s, &L21T) }
    { log_append_dup, "C14", quick, unwind = 5,
      "RaftLog::maybe_append on log terms [1,2,3] (2 stable + 1 unstable), prev=(1,1), entries [2,3] (duplicate); symbolic committed/applied/persisted/m.commit; compared with the sequence model",
      |s| c14::maybe_append(s, &L21T, 1, 1, &[2, 3]) }
    { log_append_conf_stable, "C14", quick, unwind = 5,
      "same, entries [3,3]: conflict at index 2 inside stable storage",
      |s| c14::maybe_append(s, &L21T, 1, 1, &[3, 3]) }
    // ---------------- C18 Inflights ----------------
    { c18_base, "C18", quick, unwind = 8,
      "induction base: Inflights::new(c), c in 0..=5, is an II-state denoting the empty FIFO",
      |s| c18::base(s) }
    { c18_seq_wrap, "C18", quick, unwind = 10,
      "public API script new(2): add,add,free_first_one,add(wraps the ring),free_to(x); symbolic indexes; drain-compare pins every tracked index",
      |s| c18::seq(s, 2, &[0,0,2,0,1]) }
    { c18_seq_shrink, "C18", quick, unwind = 10,
      "public API script new(3): add,add,set_cap(1),add(refused: full),free_first_one; drain-compare",
      |s| c18::seq(s, 3, &[0,0,11,0,2]) }
    { c18_step_c0_all, "C18", quick, unwind = 12,
      "one op of every kind (add/free_to/free_first_one/reset/maybe_free_buffer/set_cap(0..=2)) from every II-state with cap=0: all buffer lengths, allocated or not, pending shrinks, ring rotations, fill levels; symbolic contents",
      |s| c18::step_all(s, 0, 2) }
    { c18_step_c1_all, "C18", quick, unwind = 12,
      "one op of every kind (add/free_to/free_first_one/reset/maybe_free_buffer/set_cap(0..=3)) from every II-state with cap=1: all buffer lengths, allocated or not, pending shrinks, ring rotations, fill levels; symbolic contents",
      |s| c18::step_all(s, 1, 3) }
    { c18_step_c2_unalloc, "C18", quick, unwind = 12,
      "one op of every kind from the unallocated empty state, cap=2",
      |s| c18::step(s, 2, 0, false, None, 4) }
    { c18_step_c2_b0_pn, "C18", quick, unwind = 12,
      "one op of every kind (incl. set_cap(0..=4)) from every II-state with cap=2, 0 initialised buffer slots, pending shrink None: all ring rotations and fill levels, symbolic contents",
      |s| c18::step(s, 2, 0, true, None, 4) }
    { c18_step_c2_b1_pn, "C18", quick, unwind = 12,
      "one op of every kind (incl. set_cap(0..=4)) from every II-state with cap=2, 1 initialised buffer slots, pending shrink None: all ring rotations and fill levels, symbolic contents",
      |s| c18::step(s, 2, 1, true, None, 4) }
    { c18_step_c2_b1_p0, "C18", quick, unwind = 12,
      "one op of every kind (incl. set_cap(0..=4)) from every II-state with cap=2, 1 initialised buffer slots, pending shrink Some(0): all ring rotations and fill levels, symbolic contents",
      |s| c18::step(s, 2, 1, true, Some(0), 4) }
    { c18_step_c2_b1_p1, "C18", quick, unwind = 12,
      "one op of every kind (incl. set_cap(0..=4)) from every II-state with cap=2, 1 initialised buffer slots, pending shrink Some(1): all ring rotations and fill levels, symbolic contents",
      |s| c18::step(s, 2, 1, true, Some(1), 4) }
    { c18_step_c2_b2_pn, "C18", quick, unwind = 12,
      "one op of every kind (incl. set_cap(0..=4)) from every II-state with cap=2, 2 initialised buffer slots, pending shrink None: all ring rotations and fill levels, symbolic contents",
      |s| c18::step(s, 2, 2, true, None, 4) }
    { c18_step_c2_b2_p0, "C18", quick, unwind = 12,
      "one op of every kind (incl. set_cap(0..=4)) from every II-state with cap=2, 2 initialised buffer slots, pending shrink Some(0): all ring rotations and fill levels, symbolic contents",
      |s| c18::step(s, 2, 2, true, Some(0), 4) }
    { c18_step_c2_b2_p1, "C18", quick, unwind = 12,
      "one op of every kind (incl. set_cap(0..=4)) from every II-state with cap=2, 2 initialised buffer slots, pending shrink Some(1): all ring rotations and fill levels, symbolic contents",
      |s| c18::step(s, 2, 2, true, Some(1), 4) }
    { c18_step_c3_unalloc, "C18", thorough, unwind = 13,
      "one op of every kind from the unallocated empty state, cap=3",
      |s| c18::step(s, 3, 0, false, None, 5) }
    { c18_step_c3_b0_pn, "C18", thorough, unwind = 13,
      "one op of every kind (incl. set_cap(0..=5)) from every II-state with cap=3, 0 initialised buffer slots, pending shrink None: all ring rotations and fill levels, symbolic contents",
      |s| c18::step(s, 3, 0, true, None, 5) }
    { c18_step_c3_b1_pn, "C18", thorough, unwind = 13,
      "one op of every kind (incl. set_cap(0..=5)) from every II-state with cap=3, 1 initialised buffer slots, pending shrink None: all ring rotations and fill levels, symbolic contents",
      |s| c18::step(s, 3, 1, true, None, 5) }
    { c18_step_c3_b1_p0, "C18", thorough, unwind = 13,
      "one op of every kind (incl. set_cap(0..=5)) from every II-state with cap=3, 1 initialised buffer slots, pending shrink Some(0): all ring rotations and fill levels, symbolic contents",
      |s| c18::step(s, 3, 1, true, Some(0), 5) }
    { c18_step_c3_b1_p1, "C18", thorough, unwind = 13,
      "one op of every kind (incl. set_cap(0..=5)) from every II-state with cap=3, 1 initialised buffer slots, pending shrink Some(1): all ring rotations and fill levels, symbolic contents",
      |s| c18::step(s, 3, 1, true, Some(1), 5) }
    { c18_step_c3_b1_p2, "C18", thorough, unwind = 13,
      "one op of every kind (incl. set_cap(0..=5)) from every II-state with cap=3, 1 initialised buffer slots, pending shrink Some(2): all ring rotations and fill levels, symbolic contents",
      |s| c18::step(s, 3, 1, true, Some(2), 5) }
    { c18_step_c3_b2_pn, "C18", thorough, unwind = 13,
      "one op of every kind (incl. set_cap(0..=5)) from every II-state with cap=3, 2 initialised buffer slots, pending shrink None: all ring rotations and fill levels, symbolic contents",
      |s| c18::step(s, 3, 2, true, None, 5) }
    { c18_step_c3_b2_p0, "C18", thorough, unwind = 13,
      "one op of every kind (incl. set_cap(0..=5)) from every II-state with cap=3, 2 initialised buffer slots, pending shrink Some(0): all ring rotations and fill levels, symbolic contents",
      |s| c18::step(s, 3, 2, true, Some(0), 5) }
    { c18_step_c3_b2_p1, "C18", thorough, unwind = 13,
      "one op of every kind (incl. set_cap(0..=5)) from every II-state with cap=3, 2 initialised buffer slots, pending shrink Some(1): all ring rotations and fill levels, symbolic contents",
      |s| c18::step(s, 3, 2, true, Some(1), 5) }
    { c18_step_c3_b2_p2, "C18", thorough, unwind = 13,
      "one op of every kind (incl. set_cap(0..=5)) from every II-state with cap=3, 2 initialised buffer slots, pending shrink Some(2): all ring rotations and fill levels, symbolic contents",
      |s| c18::step(s, 3, 2, true, Some(2), 5) }
    { c18_step_c3_b3_pn, "C18", quick, unwind = 13,
      "one op of every kind (incl. set_cap(0..=5)) from every II-state with cap=3, 3 initialised buffer slots, pending shrink None: all ring rotations and fill levels, symbolic contents",
      |s| c18::step(s, 3, 3, true, None, 5) }
    { c18_step_c3_b3_p0, "C18", thorough, unwind = 13,
      "one op of every kind (incl. set_cap(0..=5)) from every II-state with cap=3, 3 initialised buffer slots, pending shrink Some(0): all ring rotations and fill levels, symbolic contents",
      |s| c18::step(s, 3, 3, true, Some(0), 5) }
    { c18_step_c3_b3_p1, "C18", quick, unwind = 13,
      "one op of every kind (incl. set_cap(0..=5)) from every II-state with cap=3, 3 initialised buffer slots, pending shrink Some(1): all ring rotations and fill levels, symbolic contents",
      |s| c18::step(s, 3, 3, true, Some(1), 5) }
    { c18_step_c3_b3_p2, "C18", thorough, unwind = 13,
      "one op of every kind (incl. set_cap(0..=5)) from every II-state with cap=3, 3 initialised buffer slots, pending shrink Some(2): all ring rotations and fill levels, symbolic contents",
      |s| c18::step(s, 3, 3, true, Some(2), 5) }
    { c18_step_c4_unalloc, "C18", thorough, unwind = 14,
      "one op of every kind from the unallocated empty state, cap=4",
      |s| c18::step(s, 4, 0, false, None, 6) }
    { c18_step_c4_b0_pn, "C18", thorough, unwind = 14,
      "one op of every kind (incl. set_cap(0..=6)) from every II-state with cap=4, 0 initialised buffer slots, pending shrink None: all ring rotations and fill levels, symbolic contents",
      |s| c18::step(s, 4, 0, true, None, 6) }
    { c18_step_c4_b1_pn, "C18", thorough, unwind = 14,
      "one op of every kind (incl. set_cap(0..=6)) from every II-state with cap=4, 1 initialised buffer slots, pending shrink None: all ring rotations and fill levels, symbolic contents",
      |s| c18::step(s, 4, 1, true, None, 6) }
    { c18_step_c4_b1_p0, "C18", thorough, unwind = 14,
      "one op of every kind (incl. set_cap(0..=6)) from every II-state with cap=4, 1 initialised buffer slots, pending shrink Some(0): all ring rotations and fill levels, symbolic contents",
      |s| c18::step(s, 4, 1, true, Some(0), 6) }
    { c18_step_c4_b1_p1, "C18", thorough, unwind = 14,
      "one op of every kind (incl. set_cap(0..=6)) from every II-state with cap=4, 1 initialised buffer slots, pending shrink Some(1): all ring rotations and fill levels, symbolic contents",
      |s| c18::step(s, 4, 1, true, Some(1), 6) }
    { c18_step_c4_b1_p2, "C18", thorough, unwind = 14,
      "one op of every kind (incl. set_cap(0..=6)) from every II-state with cap=4, 1 initialised buffer slots, pending shrink Some(2): all ring rotations and fill levels, symbolic contents",
      |s| c18::step(s, 4, 1, true, Some(2), 6) }
    { c18_step_c4_b1_p3, "C18", thorough, unwind = 14,
      "one op of every kind (incl. set_cap(0..=6)) from every II-state with cap=4, 1 initialised buffer slots, pending shrink Some(3): all ring rotations and fill levels, symbolic contents",
      |s| c18::step(s, 4, 1, true, Some(3), 6) }
    { c18_step_c4_b2_pn, "C18", thorough, unwind = 14,
      "one op of every kind (incl. set_cap(0..=6)) from every II-state with cap=4, 2 initialised buffer slots, pending shrink None: all ring rotations and fill levels, symbolic contents",
      |s| c18::step(s, 4, 2, true, None, 6) }
    { c18_step_c4_b2_p0, "C18", thorough, unwind = 14,
      "one op of every kind (incl. set_cap(0..=6)) from every II-state with cap=4, 2 initialised buffer slots, pending shrink Some(0): all ring rotations and fill levels, symbolic contents",
      |s| c18::step(s, 4, 2, true, Some(0), 6) }
    { c18_step_c4_b2_p1, "C18", thorough, unwind = 14,
      "one op of every kind (incl. set_cap(0..=6)) from every II-state with cap=4, 2 initialised buffer slots, pending shrink Some(1): all ring rotations and fill levels, symbolic contents",
      |s| c18::step(s, 4, 2, true, Some(1), 6) }
    { c18_step_c4_b2_p2, "C18", thorough, unwind = 14,
      "one op of every kind (incl. set_cap(0..=6)) from every II-state with cap=4, 2 initialised buffer slots, pending shrink Some(2): all ring rotations and fill levels, symbolic contents",
      |s| c18::step(s, 4, 2, true, Some(2), 6) }
    { c18_step_c4_b2_p3, "C18", thorough, unwind = 14,
      "one op of every kind (incl. set_cap(0..=6)) from every II-state with cap=4, 2 initialised buffer slots, pending shrink Some(3): all ring rotations and fill levels, symbolic contents",
      |s| c18::step(s, 4, 2, true, Some(3), 6) }
    { c18_step_c4_b3_pn, "C18", thorough, unwind = 14,
      "one op of every kind (incl. set_cap(0..=6)) from every II-state with cap=4, 3 initialised buffer slots, pending shrink None: all ring rotations and fill levels, symbolic contents",
      |s| c18::step(s, 4, 3, true, None, 6) }
    { c18_step_c4_b3_p0, "C18", thorough, unwind = 14,
      "one op of every kind (incl. set_cap(0..=6)) from every II-state with cap=4, 3 initialised buffer slots, pending shrink Some(0): all ring rotations and fill levels, symbolic contents",
      |s| c18::step(s, 4, 3, true, Some(0), 6) }
    { c18_step_c4_b3_p1, "C18", thorough, unwind = 14,
      "one op of every kind (incl. set_cap(0..=6)) from every II-state with cap=4, 3 initialised buffer slots, pending shrink Some(1): all ring rotations and fill levels, symbolic contents",
      |s| c18::step(s, 4, 3, true, Some(1), 6) }
    { c18_step_c4_b3_p2, "C18", thorough, unwind = 14,
      "one op of every kind (incl. set_cap(0..=6)) from every II-state with cap=4, 3 initialised buffer slots, pending shrink Some(2): all ring rotations and fill levels, symbolic contents",
      |s| c18::step(s, 4, 3, true, Some(2), 6) }
    { c18_step_c4_b3_p3, "C18", thorough, unwind = 14,
      "one op of every kind (incl. set_cap(0..=6)) from every II-state with cap=4, 3 initialised buffer slots, pending shrink Some(3): all ring rotations and fill levels, symbolic contents",
      |s| c18::step(s, 4, 3, true, Some(3), 6) }
    { c18_step_c4_b4_pn, "C18", thorough, unwind = 14,
      "one op of every kind (incl. set_cap(0..=6)) from every II-state with cap=4, 4 initialised buffer slots, pending shrink None: all ring rotations and fill levels, symbolic contents",
      |s| c18::step(s, 4, 4, true, None, 6) }
    { c18_step_c4_b4_p0, "C18", thorough, unwind = 14,
      "one op of every kind (incl. set_cap(0..=6)) from every II-state with cap=4, 4 initialised buffer slots, pending shrink Some(0): all ring rotations and fill levels, symbolic contents",
      |s| c18::step(s, 4, 4, true, Some(0), 6) }
    { c18_step_c4_b4_p1, "C18", thorough, unwind = 14,
      "one op of every kind (incl. set_cap(0..=6)) from every II-state with cap=4, 4 initialised buffer slots, pending shrink Some(1): all ring rotations and fill levels, symbolic contents",
      |s| c18::step(s, 4, 4, true, Some(1), 6) }
    { c18_step_c4_b4_p2, "C18", thorough, unwind = 14,
      "one op of every kind (incl. set_cap(0..=6)) from every II-state with cap=4, 4 initialised buffer slots, pending shrink Some(2): all ring rotations and fill levels, symbolic contents",
      |s| c18::step(s, 4, 4, true, Some(2), 6) }
    { c18_step_c4_b4_p3, "C18", thorough, unwind = 14,
      "one op of every kind (incl. set_cap(0..=6)) from every II-state with cap=4, 4 initialised buffer slots, pending shrink Some(3): all ring rotations and fill levels, symbolic contents",
      |s| c18::step(s, 4, 4, true, Some(3), 6) }
}
