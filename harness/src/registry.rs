//! The list of harnesses (one `#[kani::proof]` each + native registry).
use crate::*;
use crate::state::{PeerShape, Shape};
use crate::rawnode::{Input, RnShape};
use raft::StateRole;

const F21: Shape = Shape::follower3(2, 1);
const F21T: Shape = Shape::follower3(2, 1).with_terms(&[1, 2, 3]);
const L21T: c14::LogShape = c14::LogShape { base: 0, n_stable: 2, n_unstable: 1, terms: &[1, 2, 3] };
const LG21: c14::LogShape = c14::LogShape { base: 0, n_stable: 2, n_unstable: 1, terms: &[] };
const LG22: c14::LogShape = c14::LogShape { base: 0, n_stable: 2, n_unstable: 2, terms: &[1, 2, 2, 3] };
const LG21B: c14::LogShape = c14::LogShape { base: 7, n_stable: 2, n_unstable: 1, terms: &[] };
const LG30: c14::LogShape = c14::LogShape { base: 0, n_stable: 3, n_unstable: 0, terms: &[1, 2, 3] };
const F30: Shape = Shape::follower3(3, 0);
const S3: c12::CShape = c12::CShape { inc: &[1, 2, 3], out: &[], lrn: &[], nxt: &[], auto: false };
const S3L: c12::CShape = c12::CShape { inc: &[1, 2, 3], out: &[], lrn: &[4], nxt: &[], auto: false };
const S1: c12::CShape = c12::CShape { inc: &[1], out: &[], lrn: &[], nxt: &[], auto: false };
const J1: c12::CShape = c12::CShape { inc: &[1, 2], out: &[1, 2, 3], lrn: &[4], nxt: &[3], auto: true };
const J2: c12::CShape = c12::CShape { inc: &[1, 2, 4], out: &[1, 2, 3], lrn: &[], nxt: &[], auto: false };
// RawNode scenarios
const RF: Shape = Shape::follower3(3, 0).with_terms(&[1, 2, 3]).with_term(5).with_commit(1).with_applied(1).with_persisted(3).with_flags(false, false, false);
const RF0: Shape = Shape::follower3(3, 0).with_terms(&[1, 2, 3]).with_term(5).with_commit(0).with_applied(0).with_persisted(3).with_flags(false, false, false);
const RS1L_LEADER: Shape = Shape::follower3(3, 0).with_role(StateRole::Leader).with_conf(&[1], &[], &[2], &[], false).with_terms(&[1, 2, 5]).with_term(5).with_commit(3).with_applied(3).with_persisted(3).with_flags(false, false, false).with_peers(&[PeerShape::replicate(2, 4, 0).matched(3)]);
const RL_ASYNC_SKIP: Shape = Shape::follower3(3, 0).with_role(StateRole::Leader).with_terms(&[1, 2, 2]).with_term(2).with_flags(false, false, true).with_commit(1).with_applied(1).with_persisted(1).with_peers(&[PeerShape::probe(2, 2).matched(1), PeerShape::replicate(3, 4, 0).matched(3)]);
const FC22: Shape = Shape::follower3(2, 0).with_base(2).with_terms(&[1, 2, 2]).with_term(5).with_commit(2).with_applied(2).with_persisted(2).with_flags(false, false, false);
const F30_REQ: Shape = Shape::follower3(3, 0).with_terms(&[1, 2, 5]).with_term(5).with_commit(2).with_flags(false, false, false);
const F30_REQ_OLD: Shape = Shape::follower3(3, 0).with_terms(&[1, 2, 3]).with_term(5).with_commit(2).with_flags(false, false, false);
const L21_XFER_PART: Shape = L21S.with_commit(1).with_persisted(2).with_peers(&[PeerShape::replicate(2, 4, 2).matched(1), PeerShape::probe(3, 2).matched(0).paused()]);
const LJ11_READ: Shape = L21_READ.with_conf(&[1], &[2], &[], &[], false).with_peers(&[PeerShape::replicate(2, 4, 0).matched(3)]);
const RF_ASYNC: Shape = Shape::follower3(3, 0).with_terms(&[1, 1, 1]).with_term(5).with_commit(1).with_applied(1).with_persisted(1).with_flags(false, false, false);
const RL: Shape = L21S.with_commit(1).with_applied(1).with_persisted(2).with_peers(&[PeerShape::probe(2, 2).matched(1).paused(), PeerShape::probe(3, 2).matched(0).paused()]);
const RL_ACTIVE: Shape = L21S.with_commit(1).with_applied(1).with_persisted(2).with_peers(&[PeerShape::replicate(2, 4, 0).matched(3), PeerShape::probe(3, 2).matched(0).paused()]);
const RS1_LEADER: Shape = Shape::follower3(2, 1).with_role(StateRole::Leader).with_conf(&[1], &[], &[], &[], false).with_terms(&[1, 2, 5]).with_term(5).with_commit(2).with_applied(2).with_persisted(2).with_flags(false, false, false);
const RS1L: Shape = Shape::follower3(3, 0).with_conf(&[1], &[], &[2], &[], false).with_terms(&[1, 2, 3]).with_term(5).with_commit(3).with_applied(3).with_persisted(3).with_flags(false, false, false);
const RS1: Shape = Shape::follower3(3, 0).with_conf(&[1], &[], &[], &[], false).with_terms(&[1, 2, 3]).with_term(5).with_commit(3).with_applied(3).with_persisted(3).with_flags(false, false, false);
const FS_AUTOJOINT: Shape = Shape::follower3(3, 0).with_conf(&[1, 2], &[1, 2, 3], &[], &[], true).with_terms(&[1, 2, 3]).with_term(5).with_commit(2).with_applied(1).with_persisted(3).with_flags(false, false, false);
const FS: Shape = Shape::follower3(3, 0).with_terms(&[1, 2, 3]).with_term(5).with_commit(2).with_applied(1).with_persisted(3).with_flags(false, false, false);
// leader over a compacted log (snapshot point 2, entries 3..=5 = 2 stable + 1 unstable), peer 2 needs entries that are gone
const LC: Shape = Shape::follower3(2, 1).with_role(StateRole::Leader).with_base(2).with_terms(&[1, 2, 2, 2]).with_term(2).with_flags(false, false, false).with_commit(1).with_persisted(2);
const LC_NEED: Shape = LC.with_peers(&[PeerShape::probe(2, 0).matched_abs(1).paused(), PeerShape::probe(3, 3).matched(2).paused()]);
const L21_READ: Shape = L21S.with_commit(2).with_persisted(2).with_peers(&[PeerShape::replicate(2, 4, 0).matched(3), PeerShape::replicate(3, 4, 0).matched(3)]);
const L21_READ_OLDTERM: Shape = L21.with_terms(&[1, 1, 2]).with_term(2).with_flags(false, false, false).with_commit(2).with_persisted(2).with_peers(&[PeerShape::replicate(2, 4, 0).matched(3), PeerShape::replicate(3, 4, 0).matched(3)]);
const L5_READ: Shape = L21_READ.with_conf(&[1, 2, 3, 4, 5], &[], &[], &[], false).with_peers(&[PeerShape::replicate(2, 4, 0).matched(3), PeerShape::replicate(3, 4, 0).matched(3), PeerShape::replicate(4, 4, 0).matched(3), PeerShape::replicate(5, 4, 0).matched(3)]);
const LJ_READ: Shape = L21_READ.with_conf(&[1, 2, 3], &[1, 3, 4], &[], &[], false).with_peers(&[PeerShape::replicate(2, 4, 0).matched(3), PeerShape::replicate(3, 4, 0).matched(3), PeerShape::replicate(4, 4, 0).matched(3)]);
const LJ1_READ: Shape = L21_READ.with_conf(&[1], &[1, 2, 3], &[], &[], false);
const LL_READ: Shape = L21_READ.with_conf(&[1, 2, 3], &[], &[4], &[], false).with_peers(&[PeerShape::replicate(2, 4, 0).matched(3), PeerShape::replicate(3, 4, 0).matched(3), PeerShape::replicate(4, 4, 0).matched(3)]);
const S1_READ_OLD: Shape = Shape::follower3(3, 0).with_role(StateRole::Leader).with_conf(&[1], &[], &[], &[], false).with_terms(&[1, 2, 5]).with_term(5).with_commit(2).with_applied(2).with_persisted(3).with_flags(false, false, false);
const S1_READ: Shape = S1_READ_OLD.with_commit(3);
const N2_A: Shape = Shape::follower3(3, 0).with_terms(&[1, 2, 3]).with_term(5).with_commit(3).with_applied(3).with_persisted(3).with_flags(false, false, false);
const N2_B: Shape = Shape::follower3(2, 0).with_terms(&[1, 2]).with_term(5).with_commit(2).with_applied(2).with_persisted(2).with_flags(false, false, false);
const N2_B_AHEAD: Shape = Shape::follower3(3, 1).with_terms(&[1, 2, 3, 4]).with_term(5).with_commit(2).with_applied(2).with_persisted(3).with_flags(false, false, false);
const CAND3: Shape = Shape::follower3(3, 0).with_role(StateRole::Candidate).with_term(5).with_terms(&[1, 2, 3]).with_commit(1).with_votes(&[(1, true)]);
const PRE3: Shape = Shape::follower3(3, 0).with_role(StateRole::PreCandidate).with_term(5).with_terms(&[1, 2, 3]).with_commit(1).with_votes(&[(1, true)]);
const CAND5: Shape = CAND3.with_conf(&[1, 2, 3, 4, 5], &[], &[], &[], false);
const CAND5_2: Shape = CAND5.with_votes(&[(1, true), (3, true)]);
const CAND5_R: Shape = CAND5.with_votes(&[(1, true), (3, false), (4, false)]);
const CANDJ: Shape = CAND3.with_conf(&[1, 2, 3], &[1, 3, 4], &[], &[], false);
const CAND3_DUP: Shape = CAND3.with_votes(&[(1, true), (2, false)]);
const L21: Shape = Shape::follower3(2, 1).with_role(StateRole::Leader);
// leader scenarios: log terms [1,2,2] (2 stable + 1 unstable), term 2; indexes concrete, the rest symbolic
const L21S: Shape = L21.with_terms(&[1, 2, 2]).with_term(2).with_flags(false, false, false);
// peer 2 probing (matched 1, next 3) acks 2; peer 3 matched 0: quorum index = 2 with the leader's persisted 2 -> commit 1 -> 2
const L21_PP: Shape = L21S.with_commit(1).with_persisted(2).with_peers(&[PeerShape::probe(2, 3).matched(1), PeerShape::probe(3, 2).matched(0)]);
const L21_RW: Shape = L21S.with_commit(1).with_persisted(2).with_peers(&[PeerShape::replicate(2, 3, 1).matched(1), PeerShape::probe(3, 2).matched(0)]);
const L21_STALE: Shape = L21S.with_commit(2).with_persisted(2).with_peers(&[PeerShape::replicate(2, 4, 0).matched(2), PeerShape::probe(3, 2).matched(0)]);
const L21_REJ: Shape = L21S.with_commit(0).with_persisted(2).with_peers(&[PeerShape::probe(2, 3).matched(0).paused(), PeerShape::probe(3, 2).matched(0).paused()]);
const L21_XFER: Shape = L21S.with_commit(2).with_persisted(2).with_peers(&[PeerShape::replicate(2, 4, 1).matched(2), PeerShape::probe(3, 2).matched(0).paused()]);
const L21_JOINT: Shape = L21S.with_conf(&[1, 2, 3], &[1, 3, 4], &[], &[], false).with_commit(1).with_persisted(2).with_peers(&[PeerShape::probe(2, 3).matched(1), PeerShape::probe(3, 2).matched(0).paused(), PeerShape::probe(4, 2).matched(0).paused()]);
const L21_JOINT_OK: Shape = L21S.with_conf(&[1, 2, 3], &[1, 2, 4], &[], &[], false).with_commit(1).with_persisted(2).with_peers(&[PeerShape::probe(2, 3).matched(1), PeerShape::probe(3, 2).matched(0).paused(), PeerShape::probe(4, 2).matched(0).paused()]);
// heartbeat-response scenarios
const L21_HB_PROBE: Shape = L21S.with_commit(1).with_persisted(2).with_peers(&[PeerShape::probe(2, 2).matched(1).paused(), PeerShape::probe(3, 2).matched(0).paused()]);
const L21_HB_FULL: Shape = L21S.with_inflight(1).with_commit(1).with_persisted(2).with_peers(&[PeerShape::replicate(2, 3, 1).matched(1), PeerShape::probe(3, 2).matched(0).paused()]);
const L21_HB_SNAP: Shape = L21S.with_commit(1).with_persisted(2).with_peers(&[PeerShape::snapshot(2, 2).matched(0), PeerShape::probe(3, 2).matched(0).paused()]);
const L21_HB_DONE: Shape = L21S.with_commit(1).with_persisted(2).with_peers(&[PeerShape::replicate(2, 4, 0).matched(3), PeerShape::probe(3, 2).matched(1).paused()]);
const L21_SNAP_ACK: Shape = L21S.with_commit(1).with_persisted(2).with_peers(&[PeerShape::snapshot(2, 2).matched(0).pending_snapshot(3), PeerShape::probe(3, 2).matched(0).paused()]);
const L21_SNAP_DONE: Shape = L21S.with_commit(1).with_persisted(2).with_peers(&[PeerShape::snapshot(2, 2).matched(0).pending_snapshot(2), PeerShape::probe(3, 2).matched(0).paused()]);
// check-quorum: peers inactive / one active
const L21_CQ_LOST: Shape = L21S.with_flags(true, false, false).with_commit(1).with_persisted(2).with_peers(&[PeerShape::probe(2, 2).matched(1).inactive(), PeerShape::probe(3, 2).matched(0).inactive()]);
const L21_CQ_OK: Shape = L21S.with_flags(true, false, false).with_commit(1).with_persisted(2).with_peers(&[PeerShape::probe(2, 2).matched(1), PeerShape::probe(3, 2).matched(0).inactive()]);
const L21_CQ_LOST2: Shape = L21S.with_flags(true, false, false).with_commit(1).with_persisted(2).with_peers(&[PeerShape::snapshot(2, 2).matched(1).pending_snapshot(2).requested().inactive(), PeerShape::replicate(3, 4, 1).matched(2).inactive()]);
const L21_BATCH: Shape = L21S.with_commit(0).with_persisted(2).with_peers(&[PeerShape::probe(2, 4).matched(0).paused(), PeerShape::probe(3, 2).matched(0).paused()]);
const L21_LEARNER: Shape = L21S.with_conf(&[1, 2, 3], &[], &[4], &[], false).with_commit(1).with_persisted(2).with_peers(&[PeerShape::replicate(2, 4, 0).matched(3), PeerShape::probe(3, 2).matched(0).paused(), PeerShape::probe(4, 2).matched(0).paused()]);
const L21_BOTH: Shape = L21S.with_commit(1).with_persisted(2).with_peers(&[PeerShape::probe(2, 3).matched(1), PeerShape::probe(3, 3).matched(2).paused()]);
const L21_PROP: Shape = L21S.with_commit(1).with_persisted(2).with_applied(1).with_peers(&[PeerShape::probe(2, 2).matched(1).paused(), PeerShape::probe(3, 2).matched(0).paused()]);
const L21_PROP_JOINT: Shape = L21_JOINT_OK.with_applied(1);
const L21_PERSIST: Shape = L21S.with_commit(1).with_persisted(1).with_peers(&[PeerShape::probe(2, 3).matched(2).paused(), PeerShape::probe(3, 2).matched(0).paused()]);
// same but the leader has persisted only 1: the ack alone must not commit index 2 (leader counts only what it persisted)
const L21_PP_UNPERSISTED: Shape = L21S.with_commit(1).with_persisted(1).with_peers(&[PeerShape::probe(2, 3).matched(1), PeerShape::probe(3, 2).matched(0)]);
const F30C1: Shape = Shape::follower3(3, 0).with_commit(1).with_etypes(&[0, 0, 2]).with_terms(&[1, 2, 3]);
const F30C1N: Shape = Shape::follower3(3, 0).with_commit(1).with_etypes(&[0, 0, 0]);
const F21C1: Shape = Shape::follower3(2, 1).with_commit(1).with_terms(&[1, 2, 5]);


harnesses! {
    { selftest_fail, "SELFTEST", quick, unwind = 4, "planted violation for the witness-extraction self-test", |s| selftest::fail_branchy(s) }
    { selftest_pass, "SELFTEST", quick, unwind = 4, "trivial pass", |s| selftest::pass_trivial(s) }
    // ---------------- (pre-)vote requests: C03 / C02 / C16 ----------------
    { vote_follower_real, "C03,C02,C16,C01,C06", quick, unwind = 8,
      "one Raft::step(MsgRequestVote) on a Follower of a 3-voter group, 3-entry log (symbolic terms and entry types), symbolic term/vote/leader/commit/timers/flags/priority, message term/index/log_term/commit/commit_term/context symbolic, sender a voter or unknown id",
      |s| c03::vote_step(s, &F21, false, None) }
    { vote_follower_pre, "C03,C02,C16,C01,C06", quick, unwind = 8,
      "one Raft::step(MsgRequestPreVote) on a Follower of a 3-voter group, 3-entry log (symbolic terms and entry types), symbolic term/vote/leader/commit/timers/flags/priority, message term/index/log_term/commit/commit_term/context symbolic, sender a voter or unknown id",
      |s| c03::vote_step(s, &F21, true, None) }
    { vote_candidate_real_eq_c3m, "C03,C02,C16,C01,C06", quick, unwind = 8,
      "one Raft::step(MsgRequestVote) on a Candidate (term 5) of a 3-voter group, message term 5, 3-entry log (terms [1,2,3], entry 3 a ConfChangeV2 for (pre)candidates; [1,2,5] for leaders), commit = 1, m.commit = 3 with m.commit_term = local term there (fast-forward); symbolic vote/leader/timers/flags/priority, m.index/log_term/context, sender a voter or unknown id",
      |s| c03::vote_step_x(s, &F30C1.with_role(StateRole::Candidate).with_term(5), false, Some(3), Some(5), true) }
    { vote_candidate_real_eq_c3z, "C03,C02,C16,C01,C06", thorough, unwind = 8,
      "one Raft::step(MsgRequestVote) on a Candidate (term 5) of a 3-voter group, message term 5, 3-entry log (terms [1,2,3], entry 3 a ConfChangeV2 for (pre)candidates; [1,2,5] for leaders), commit = 1, m.commit = 3 with m.commit_term = 0; symbolic vote/leader/timers/flags/priority, m.index/log_term/context, sender a voter or unknown id",
      |s| c03::vote_step_x(s, &F30C1.with_role(StateRole::Candidate).with_term(5), false, Some(3), Some(5), false) }
    { vote_candidate_real_eq_c2m, "C03,C02,C16,C01,C06", thorough, unwind = 8,
      "one Raft::step(MsgRequestVote) on a Candidate (term 5) of a 3-voter group, message term 5, 3-entry log (terms [1,2,3], entry 3 a ConfChangeV2 for (pre)candidates; [1,2,5] for leaders), commit = 1, m.commit = 2 with m.commit_term = local term there (fast-forward); symbolic vote/leader/timers/flags/priority, m.index/log_term/context, sender a voter or unknown id",
      |s| c03::vote_step_x(s, &F30C1.with_role(StateRole::Candidate).with_term(5), false, Some(2), Some(5), true) }
    { vote_candidate_real_hi_c3m, "C03,C02,C16,C01,C06", quick, unwind = 8,
      "one Raft::step(MsgRequestVote) on a Candidate (term 5) of a 3-voter group, message term 7, 3-entry log (terms [1,2,3], entry 3 a ConfChangeV2 for (pre)candidates; [1,2,5] for leaders), commit = 1, m.commit = 3 with m.commit_term = local term there (fast-forward); symbolic vote/leader/timers/flags/priority, m.index/log_term/context, sender a voter or unknown id",
      |s| c03::vote_step_x(s, &F30C1.with_role(StateRole::Candidate).with_term(5), false, Some(3), Some(7), true) }
    { vote_candidate_real_hi_c3z, "C03,C02,C16,C01,C06", thorough, unwind = 8,
      "one Raft::step(MsgRequestVote) on a Candidate (term 5) of a 3-voter group, message term 7, 3-entry log (terms [1,2,3], entry 3 a ConfChangeV2 for (pre)candidates; [1,2,5] for leaders), commit = 1, m.commit = 3 with m.commit_term = 0; symbolic vote/leader/timers/flags/priority, m.index/log_term/context, sender a voter or unknown id",
      |s| c03::vote_step_x(s, &F30C1.with_role(StateRole::Candidate).with_term(5), false, Some(3), Some(7), false) }
    { vote_candidate_real_hi_c2m, "C03,C02,C16,C01,C06", thorough, unwind = 8,
      "one Raft::step(MsgRequestVote) on a Candidate (term 5) of a 3-voter group, message term 7, 3-entry log (terms [1,2,3], entry 3 a ConfChangeV2 for (pre)candidates; [1,2,5] for leaders), commit = 1, m.commit = 2 with m.commit_term = local term there (fast-forward); symbolic vote/leader/timers/flags/priority, m.index/log_term/context, sender a voter or unknown id",
      |s| c03::vote_step_x(s, &F30C1.with_role(StateRole::Candidate).with_term(5), false, Some(2), Some(7), true) }
    { vote_candidate_real_lo_c3m, "C03,C02,C16,C01,C06", thorough, unwind = 8,
      "one Raft::step(MsgRequestVote) on a Candidate (term 5) of a 3-voter group, message term 3, 3-entry log (terms [1,2,3], entry 3 a ConfChangeV2 for (pre)candidates; [1,2,5] for leaders), commit = 1, m.commit = 3 with m.commit_term = local term there (fast-forward); symbolic vote/leader/timers/flags/priority, m.index/log_term/context, sender a voter or unknown id",
      |s| c03::vote_step_x(s, &F30C1.with_role(StateRole::Candidate).with_term(5), false, Some(3), Some(3), true) }
    { vote_candidate_pre_eq_c3m, "C03,C02,C16,C01,C06", quick, unwind = 8,
      "one Raft::step(MsgRequestPreVote) on a Candidate (term 5) of a 3-voter group, message term 5, 3-entry log (terms [1,2,3], entry 3 a ConfChangeV2 for (pre)candidates; [1,2,5] for leaders), commit = 1, m.commit = 3 with m.commit_term = local term there (fast-forward); symbolic vote/leader/timers/flags/priority, m.index/log_term/context, sender a voter or unknown id",
      |s| c03::vote_step_x(s, &F30C1.with_role(StateRole::Candidate).with_term(5), true, Some(3), Some(5), true) }
    { vote_candidate_pre_eq_c3z, "C03,C02,C16,C01,C06", thorough, unwind = 8,
      "one Raft::step(MsgRequestPreVote) on a Candidate (term 5) of a 3-voter group, message term 5, 3-entry log (terms [1,2,3], entry 3 a ConfChangeV2 for (pre)candidates; [1,2,5] for leaders), commit = 1, m.commit = 3 with m.commit_term = 0; symbolic vote/leader/timers/flags/priority, m.index/log_term/context, sender a voter or unknown id",
      |s| c03::vote_step_x(s, &F30C1.with_role(StateRole::Candidate).with_term(5), true, Some(3), Some(5), false) }
    { vote_candidate_pre_eq_c2m, "C03,C02,C16,C01,C06", thorough, unwind = 8,
      "one Raft::step(MsgRequestPreVote) on a Candidate (term 5) of a 3-voter group, message term 5, 3-entry log (terms [1,2,3], entry 3 a ConfChangeV2 for (pre)candidates; [1,2,5] for leaders), commit = 1, m.commit = 2 with m.commit_term = local term there (fast-forward); symbolic vote/leader/timers/flags/priority, m.index/log_term/context, sender a voter or unknown id",
      |s| c03::vote_step_x(s, &F30C1.with_role(StateRole::Candidate).with_term(5), true, Some(2), Some(5), true) }
    { vote_candidate_pre_hi_c3m, "C03,C02,C16,C01,C06", quick, unwind = 8,
      "one Raft::step(MsgRequestPreVote) on a Candidate (term 5) of a 3-voter group, message term 7, 3-entry log (terms [1,2,3], entry 3 a ConfChangeV2 for (pre)candidates; [1,2,5] for leaders), commit = 1, m.commit = 3 with m.commit_term = local term there (fast-forward); symbolic vote/leader/timers/flags/priority, m.index/log_term/context, sender a voter or unknown id",
      |s| c03::vote_step_x(s, &F30C1.with_role(StateRole::Candidate).with_term(5), true, Some(3), Some(7), true) }
    { vote_candidate_pre_hi_c3z, "C03,C02,C16,C01,C06", thorough, unwind = 8,
      "one Raft::step(MsgRequestPreVote) on a Candidate (term 5) of a 3-voter group, message term 7, 3-entry log (terms [1,2,3], entry 3 a ConfChangeV2 for (pre)candidates; [1,2,5] for leaders), commit = 1, m.commit = 3 with m.commit_term = 0; symbolic vote/leader/timers/flags/priority, m.index/log_term/context, sender a voter or unknown id",
      |s| c03::vote_step_x(s, &F30C1.with_role(StateRole::Candidate).with_term(5), true, Some(3), Some(7), false) }
    { vote_candidate_pre_hi_c2m, "C03,C02,C16,C01,C06", thorough, unwind = 8,
      "one Raft::step(MsgRequestPreVote) on a Candidate (term 5) of a 3-voter group, message term 7, 3-entry log (terms [1,2,3], entry 3 a ConfChangeV2 for (pre)candidates; [1,2,5] for leaders), commit = 1, m.commit = 2 with m.commit_term = local term there (fast-forward); symbolic vote/leader/timers/flags/priority, m.index/log_term/context, sender a voter or unknown id",
      |s| c03::vote_step_x(s, &F30C1.with_role(StateRole::Candidate).with_term(5), true, Some(2), Some(7), true) }
    { vote_candidate_pre_lo_c3m, "C03,C02,C16,C01,C06", quick, unwind = 8,
      "one Raft::step(MsgRequestPreVote) on a Candidate (term 5) of a 3-voter group, message term 3, 3-entry log (terms [1,2,3], entry 3 a ConfChangeV2 for (pre)candidates; [1,2,5] for leaders), commit = 1, m.commit = 3 with m.commit_term = local term there (fast-forward); symbolic vote/leader/timers/flags/priority, m.index/log_term/context, sender a voter or unknown id",
      |s| c03::vote_step_x(s, &F30C1.with_role(StateRole::Candidate).with_term(5), true, Some(3), Some(3), true) }
    { vote_precandidate_real_eq_c3m, "C03,C02,C16,C01,C06", quick, unwind = 8,
      "one Raft::step(MsgRequestVote) on a PreCandidate (term 5) of a 3-voter group, message term 5, 3-entry log (terms [1,2,3], entry 3 a ConfChangeV2 for (pre)candidates; [1,2,5] for leaders), commit = 1, m.commit = 3 with m.commit_term = local term there (fast-forward); symbolic vote/leader/timers/flags/priority, m.index/log_term/context, sender a voter or unknown id",
      |s| c03::vote_step_x(s, &F30C1.with_role(StateRole::PreCandidate).with_term(5), false, Some(3), Some(5), true) }
    { vote_precandidate_real_eq_c3z, "C03,C02,C16,C01,C06", thorough, unwind = 8,
      "one Raft::step(MsgRequestVote) on a PreCandidate (term 5) of a 3-voter group, message term 5, 3-entry log (terms [1,2,3], entry 3 a ConfChangeV2 for (pre)candidates; [1,2,5] for leaders), commit = 1, m.commit = 3 with m.commit_term = 0; symbolic vote/leader/timers/flags/priority, m.index/log_term/context, sender a voter or unknown id",
      |s| c03::vote_step_x(s, &F30C1.with_role(StateRole::PreCandidate).with_term(5), false, Some(3), Some(5), false) }
    { vote_precandidate_real_eq_c2m, "C03,C02,C16,C01,C06", thorough, unwind = 8,
      "one Raft::step(MsgRequestVote) on a PreCandidate (term 5) of a 3-voter group, message term 5, 3-entry log (terms [1,2,3], entry 3 a ConfChangeV2 for (pre)candidates; [1,2,5] for leaders), commit = 1, m.commit = 2 with m.commit_term = local term there (fast-forward); symbolic vote/leader/timers/flags/priority, m.index/log_term/context, sender a voter or unknown id",
      |s| c03::vote_step_x(s, &F30C1.with_role(StateRole::PreCandidate).with_term(5), false, Some(2), Some(5), true) }
    { vote_precandidate_real_hi_c3m, "C03,C02,C16,C01,C06", quick, unwind = 8,
      "one Raft::step(MsgRequestVote) on a PreCandidate (term 5) of a 3-voter group, message term 7, 3-entry log (terms [1,2,3], entry 3 a ConfChangeV2 for (pre)candidates; [1,2,5] for leaders), commit = 1, m.commit = 3 with m.commit_term = local term there (fast-forward); symbolic vote/leader/timers/flags/priority, m.index/log_term/context, sender a voter or unknown id",
      |s| c03::vote_step_x(s, &F30C1.with_role(StateRole::PreCandidate).with_term(5), false, Some(3), Some(7), true) }
    { vote_precandidate_real_hi_c3z, "C03,C02,C16,C01,C06", thorough, unwind = 8,
      "one Raft::step(MsgRequestVote) on a PreCandidate (term 5) of a 3-voter group, message term 7, 3-entry log (terms [1,2,3], entry 3 a ConfChangeV2 for (pre)candidates; [1,2,5] for leaders), commit = 1, m.commit = 3 with m.commit_term = 0; symbolic vote/leader/timers/flags/priority, m.index/log_term/context, sender a voter or unknown id",
      |s| c03::vote_step_x(s, &F30C1.with_role(StateRole::PreCandidate).with_term(5), false, Some(3), Some(7), false) }
    { vote_precandidate_real_hi_c2m, "C03,C02,C16,C01,C06", thorough, unwind = 8,
      "one Raft::step(MsgRequestVote) on a PreCandidate (term 5) of a 3-voter group, message term 7, 3-entry log (terms [1,2,3], entry 3 a ConfChangeV2 for (pre)candidates; [1,2,5] for leaders), commit = 1, m.commit = 2 with m.commit_term = local term there (fast-forward); symbolic vote/leader/timers/flags/priority, m.index/log_term/context, sender a voter or unknown id",
      |s| c03::vote_step_x(s, &F30C1.with_role(StateRole::PreCandidate).with_term(5), false, Some(2), Some(7), true) }
    { vote_precandidate_real_lo_c3m, "C03,C02,C16,C01,C06", thorough, unwind = 8,
      "one Raft::step(MsgRequestVote) on a PreCandidate (term 5) of a 3-voter group, message term 3, 3-entry log (terms [1,2,3], entry 3 a ConfChangeV2 for (pre)candidates; [1,2,5] for leaders), commit = 1, m.commit = 3 with m.commit_term = local term there (fast-forward); symbolic vote/leader/timers/flags/priority, m.index/log_term/context, sender a voter or unknown id",
      |s| c03::vote_step_x(s, &F30C1.with_role(StateRole::PreCandidate).with_term(5), false, Some(3), Some(3), true) }
    { vote_precandidate_pre_eq_c3m, "C03,C02,C16,C01,C06", quick, unwind = 8,
      "one Raft::step(MsgRequestPreVote) on a PreCandidate (term 5) of a 3-voter group, message term 5, 3-entry log (terms [1,2,3], entry 3 a ConfChangeV2 for (pre)candidates; [1,2,5] for leaders), commit = 1, m.commit = 3 with m.commit_term = local term there (fast-forward); symbolic vote/leader/timers/flags/priority, m.index/log_term/context, sender a voter or unknown id",
      |s| c03::vote_step_x(s, &F30C1.with_role(StateRole::PreCandidate).with_term(5), true, Some(3), Some(5), true) }
    { vote_precandidate_pre_eq_c3z, "C03,C02,C16,C01,C06", thorough, unwind = 8,
      "one Raft::step(MsgRequestPreVote) on a PreCandidate (term 5) of a 3-voter group, message term 5, 3-entry log (terms [1,2,3], entry 3 a ConfChangeV2 for (pre)candidates; [1,2,5] for leaders), commit = 1, m.commit = 3 with m.commit_term = 0; symbolic vote/leader/timers/flags/priority, m.index/log_term/context, sender a voter or unknown id",
      |s| c03::vote_step_x(s, &F30C1.with_role(StateRole::PreCandidate).with_term(5), true, Some(3), Some(5), false) }
    { vote_precandidate_pre_eq_c2m, "C03,C02,C16,C01,C06", thorough, unwind = 8,
      "one Raft::step(MsgRequestPreVote) on a PreCandidate (term 5) of a 3-voter group, message term 5, 3-entry log (terms [1,2,3], entry 3 a ConfChangeV2 for (pre)candidates; [1,2,5] for leaders), commit = 1, m.commit = 2 with m.commit_term = local term there (fast-forward); symbolic vote/leader/timers/flags/priority, m.index/log_term/context, sender a voter or unknown id",
      |s| c03::vote_step_x(s, &F30C1.with_role(StateRole::PreCandidate).with_term(5), true, Some(2), Some(5), true) }
    { vote_precandidate_pre_hi_c3m, "C03,C02,C16,C01,C06", quick, unwind = 8,
      "one Raft::step(MsgRequestPreVote) on a PreCandidate (term 5) of a 3-voter group, message term 7, 3-entry log (terms [1,2,3], entry 3 a ConfChangeV2 for (pre)candidates; [1,2,5] for leaders), commit = 1, m.commit = 3 with m.commit_term = local term there (fast-forward); symbolic vote/leader/timers/flags/priority, m.index/log_term/context, sender a voter or unknown id",
      |s| c03::vote_step_x(s, &F30C1.with_role(StateRole::PreCandidate).with_term(5), true, Some(3), Some(7), true) }
    { vote_precandidate_pre_hi_c3z, "C03,C02,C16,C01,C06", thorough, unwind = 8,
      "one Raft::step(MsgRequestPreVote) on a PreCandidate (term 5) of a 3-voter group, message term 7, 3-entry log (terms [1,2,3], entry 3 a ConfChangeV2 for (pre)candidates; [1,2,5] for leaders), commit = 1, m.commit = 3 with m.commit_term = 0; symbolic vote/leader/timers/flags/priority, m.index/log_term/context, sender a voter or unknown id",
      |s| c03::vote_step_x(s, &F30C1.with_role(StateRole::PreCandidate).with_term(5), true, Some(3), Some(7), false) }
    { vote_precandidate_pre_hi_c2m, "C03,C02,C16,C01,C06", thorough, unwind = 8,
      "one Raft::step(MsgRequestPreVote) on a PreCandidate (term 5) of a 3-voter group, message term 7, 3-entry log (terms [1,2,3], entry 3 a ConfChangeV2 for (pre)candidates; [1,2,5] for leaders), commit = 1, m.commit = 2 with m.commit_term = local term there (fast-forward); symbolic vote/leader/timers/flags/priority, m.index/log_term/context, sender a voter or unknown id",
      |s| c03::vote_step_x(s, &F30C1.with_role(StateRole::PreCandidate).with_term(5), true, Some(2), Some(7), true) }
    { vote_precandidate_pre_lo_c3m, "C03,C02,C16,C01,C06", quick, unwind = 8,
      "one Raft::step(MsgRequestPreVote) on a PreCandidate (term 5) of a 3-voter group, message term 3, 3-entry log (terms [1,2,3], entry 3 a ConfChangeV2 for (pre)candidates; [1,2,5] for leaders), commit = 1, m.commit = 3 with m.commit_term = local term there (fast-forward); symbolic vote/leader/timers/flags/priority, m.index/log_term/context, sender a voter or unknown id",
      |s| c03::vote_step_x(s, &F30C1.with_role(StateRole::PreCandidate).with_term(5), true, Some(3), Some(3), true) }
    { vote_leader_real_eq_c3m, "C03,C02,C16,C01,C06", quick, unwind = 8,
      "one Raft::step(MsgRequestVote) on a Leader (term 5) of a 3-voter group, message term 5, 3-entry log (terms [1,2,3], entry 3 a ConfChangeV2 for (pre)candidates; [1,2,5] for leaders), commit = 1, m.commit = 3 with m.commit_term = local term there (fast-forward); symbolic vote/leader/timers/flags/priority, m.index/log_term/context, sender a voter or unknown id",
      |s| c03::vote_step_x(s, &F21C1.with_role(StateRole::Leader).with_term(5), false, Some(3), Some(5), true) }
    { vote_leader_real_eq_c3z, "C03,C02,C16,C01,C06", thorough, unwind = 8,
      "one Raft::step(MsgRequestVote) on a Leader (term 5) of a 3-voter group, message term 5, 3-entry log (terms [1,2,3], entry 3 a ConfChangeV2 for (pre)candidates; [1,2,5] for leaders), commit = 1, m.commit = 3 with m.commit_term = 0; symbolic vote/leader/timers/flags/priority, m.index/log_term/context, sender a voter or unknown id",
      |s| c03::vote_step_x(s, &F21C1.with_role(StateRole::Leader).with_term(5), false, Some(3), Some(5), false) }
    { vote_leader_real_eq_c2m, "C03,C02,C16,C01,C06", thorough, unwind = 8,
      "one Raft::step(MsgRequestVote) on a Leader (term 5) of a 3-voter group, message term 5, 3-entry log (terms [1,2,3], entry 3 a ConfChangeV2 for (pre)candidates; [1,2,5] for leaders), commit = 1, m.commit = 2 with m.commit_term = local term there (fast-forward); symbolic vote/leader/timers/flags/priority, m.index/log_term/context, sender a voter or unknown id",
      |s| c03::vote_step_x(s, &F21C1.with_role(StateRole::Leader).with_term(5), false, Some(2), Some(5), true) }
    { vote_leader_real_hi_c3m, "C03,C02,C16,C01,C06,C04,C10", quick, unwind = 8,
      "one Raft::step(MsgRequestVote) on a Leader (term 5) of a 3-voter group, message term 7, 3-entry log (terms [1,2,3], entry 3 a ConfChangeV2 for (pre)candidates; [1,2,5] for leaders), commit = 1, m.commit = 3 with m.commit_term = local term there (fast-forward); symbolic vote/leader/timers/flags/priority, m.index/log_term/context, sender a voter or unknown id",
      |s| c03::vote_step_x(s, &F21C1.with_role(StateRole::Leader).with_term(5), false, Some(3), Some(7), true) }
    { vote_leader_real_hi_c3z, "C03,C02,C16,C01,C06", thorough, unwind = 8,
      "one Raft::step(MsgRequestVote) on a Leader (term 5) of a 3-voter group, message term 7, 3-entry log (terms [1,2,3], entry 3 a ConfChangeV2 for (pre)candidates; [1,2,5] for leaders), commit = 1, m.commit = 3 with m.commit_term = 0; symbolic vote/leader/timers/flags/priority, m.index/log_term/context, sender a voter or unknown id",
      |s| c03::vote_step_x(s, &F21C1.with_role(StateRole::Leader).with_term(5), false, Some(3), Some(7), false) }
    { vote_leader_real_hi_c2m, "C03,C02,C16,C01,C06", thorough, unwind = 8,
      "one Raft::step(MsgRequestVote) on a Leader (term 5) of a 3-voter group, message term 7, 3-entry log (terms [1,2,3], entry 3 a ConfChangeV2 for (pre)candidates; [1,2,5] for leaders), commit = 1, m.commit = 2 with m.commit_term = local term there (fast-forward); symbolic vote/leader/timers/flags/priority, m.index/log_term/context, sender a voter or unknown id",
      |s| c03::vote_step_x(s, &F21C1.with_role(StateRole::Leader).with_term(5), false, Some(2), Some(7), true) }
    { vote_leader_real_lo_c3m, "C03,C02,C16,C01,C06", thorough, unwind = 8,
      "one Raft::step(MsgRequestVote) on a Leader (term 5) of a 3-voter group, message term 3, 3-entry log (terms [1,2,3], entry 3 a ConfChangeV2 for (pre)candidates; [1,2,5] for leaders), commit = 1, m.commit = 3 with m.commit_term = local term there (fast-forward); symbolic vote/leader/timers/flags/priority, m.index/log_term/context, sender a voter or unknown id",
      |s| c03::vote_step_x(s, &F21C1.with_role(StateRole::Leader).with_term(5), false, Some(3), Some(3), true) }
    { vote_leader_pre_eq_c3m, "C03,C02,C16,C01,C06", quick, unwind = 8,
      "one Raft::step(MsgRequestPreVote) on a Leader (term 5) of a 3-voter group, message term 5, 3-entry log (terms [1,2,3], entry 3 a ConfChangeV2 for (pre)candidates; [1,2,5] for leaders), commit = 1, m.commit = 3 with m.commit_term = local term there (fast-forward); symbolic vote/leader/timers/flags/priority, m.index/log_term/context, sender a voter or unknown id",
      |s| c03::vote_step_x(s, &F21C1.with_role(StateRole::Leader).with_term(5), true, Some(3), Some(5), true) }
    { vote_leader_pre_eq_c3z, "C03,C02,C16,C01,C06", thorough, unwind = 8,
      "one Raft::step(MsgRequestPreVote) on a Leader (term 5) of a 3-voter group, message term 5, 3-entry log (terms [1,2,3], entry 3 a ConfChangeV2 for (pre)candidates; [1,2,5] for leaders), commit = 1, m.commit = 3 with m.commit_term = 0; symbolic vote/leader/timers/flags/priority, m.index/log_term/context, sender a voter or unknown id",
      |s| c03::vote_step_x(s, &F21C1.with_role(StateRole::Leader).with_term(5), true, Some(3), Some(5), false) }
    { vote_leader_pre_eq_c2m, "C03,C02,C16,C01,C06", thorough, unwind = 8,
      "one Raft::step(MsgRequestPreVote) on a Leader (term 5) of a 3-voter group, message term 5, 3-entry log (terms [1,2,3], entry 3 a ConfChangeV2 for (pre)candidates; [1,2,5] for leaders), commit = 1, m.commit = 2 with m.commit_term = local term there (fast-forward); symbolic vote/leader/timers/flags/priority, m.index/log_term/context, sender a voter or unknown id",
      |s| c03::vote_step_x(s, &F21C1.with_role(StateRole::Leader).with_term(5), true, Some(2), Some(5), true) }
    { vote_leader_pre_hi_c3m, "C03,C02,C16,C01,C06", quick, unwind = 8,
      "one Raft::step(MsgRequestPreVote) on a Leader (term 5) of a 3-voter group, message term 7, 3-entry log (terms [1,2,3], entry 3 a ConfChangeV2 for (pre)candidates; [1,2,5] for leaders), commit = 1, m.commit = 3 with m.commit_term = local term there (fast-forward); symbolic vote/leader/timers/flags/priority, m.index/log_term/context, sender a voter or unknown id",
      |s| c03::vote_step_x(s, &F21C1.with_role(StateRole::Leader).with_term(5), true, Some(3), Some(7), true) }
    { vote_leader_pre_hi_c3z, "C03,C02,C16,C01,C06", thorough, unwind = 8,
      "one Raft::step(MsgRequestPreVote) on a Leader (term 5) of a 3-voter group, message term 7, 3-entry log (terms [1,2,3], entry 3 a ConfChangeV2 for (pre)candidates; [1,2,5] for leaders), commit = 1, m.commit = 3 with m.commit_term = 0; symbolic vote/leader/timers/flags/priority, m.index/log_term/context, sender a voter or unknown id",
      |s| c03::vote_step_x(s, &F21C1.with_role(StateRole::Leader).with_term(5), true, Some(3), Some(7), false) }
    { vote_leader_pre_hi_c2m, "C03,C02,C16,C01,C06", thorough, unwind = 8,
      "one Raft::step(MsgRequestPreVote) on a Leader (term 5) of a 3-voter group, message term 7, 3-entry log (terms [1,2,3], entry 3 a ConfChangeV2 for (pre)candidates; [1,2,5] for leaders), commit = 1, m.commit = 2 with m.commit_term = local term there (fast-forward); symbolic vote/leader/timers/flags/priority, m.index/log_term/context, sender a voter or unknown id",
      |s| c03::vote_step_x(s, &F21C1.with_role(StateRole::Leader).with_term(5), true, Some(2), Some(7), true) }
    { vote_leader_pre_lo_c3m, "C03,C02,C16,C01,C06", quick, unwind = 8,
      "one Raft::step(MsgRequestPreVote) on a Leader (term 5) of a 3-voter group, message term 3, 3-entry log (terms [1,2,3], entry 3 a ConfChangeV2 for (pre)candidates; [1,2,5] for leaders), commit = 1, m.commit = 3 with m.commit_term = local term there (fast-forward); symbolic vote/leader/timers/flags/priority, m.index/log_term/context, sender a voter or unknown id",
      |s| c03::vote_step_x(s, &F21C1.with_role(StateRole::Leader).with_term(5), true, Some(3), Some(3), true) }
    // ---------------- follower append / heartbeat: C05 / C04 / C01 ----------------
    { append_dup, "C05,C01,C04,C14", quick, unwind = 8,
      "one Raft::step(MsgAppend) on a follower (3 voters; log terms [1,2,3] = 2 stable + 1 unstable; symbolic term/vote/leader/commit/applied/persisted/timers/flags; message term, commit, entry types symbolic): prev=(1,1), entry terms [2, 3] - duplicate of entries the log already holds (nothing may be truncated); post-state compared with a sequence model",
      |s| c05::append_step(s, &F21T, 1, 1, &[2, 3], c05::O_DUP) }
    { append_conf_unstable, "C05,C01,C04,C14", quick, unwind = 8,
      "one Raft::step(MsgAppend) on a follower (3 voters; log terms [1,2,3] = 2 stable + 1 unstable; symbolic term/vote/leader/commit/applied/persisted/timers/flags; message term, commit, entry types symbolic): prev=(1,1), entry terms [2, 4] - conflict at index 3, inside the unstable suffix; post-state compared with a sequence model",
      |s| c05::append_step(s, &F21T, 1, 1, &[2, 4], c05::O_TRUNC) }
    { append_conf_stable, "C05,C01,C04,C14", quick, unwind = 8,
      "one Raft::step(MsgAppend) on a follower (3 voters; log terms [1,2,3] = 2 stable + 1 unstable; symbolic term/vote/leader/commit/applied/persisted/timers/flags; message term, commit, entry types symbolic): prev=(1,1), entry terms [3, 3] - conflict at index 2, inside stable storage (offset moves back, persisted falls); post-state compared with a sequence model",
      |s| c05::append_step(s, &F21T, 1, 1, &[3, 3], c05::O_TRUNC) }
    { append_extend, "C05,C01,C04,C14", quick, unwind = 8,
      "one Raft::step(MsgAppend) on a follower (3 voters; log terms [1,2,3] = 2 stable + 1 unstable; symbolic term/vote/leader/commit/applied/persisted/timers/flags; message term, commit, entry types symbolic): prev=(3,3), entry terms [3, 4] - pure extension after the last entry; post-state compared with a sequence model",
      |s| c05::append_step(s, &F21T, 3, 3, &[3, 4], c05::O_EXTEND) }
    { append_rej_term, "C05,C01,C04,C14", quick, unwind = 8,
      "one Raft::step(MsgAppend) on a follower (3 voters; log terms [1,2,3] = 2 stable + 1 unstable; symbolic term/vote/leader/commit/applied/persisted/timers/flags; message term, commit, entry types symbolic): prev=(2,1), entry terms [2] - prev (index,term) mismatch -> reject with hint; post-state compared with a sequence model",
      |s| c05::append_step(s, &F21T, 2, 1, &[2], c05::O_REJECT) }
    { append_rej_beyond, "C05,C01,C04,C14", quick, unwind = 8,
      "one Raft::step(MsgAppend) on a follower (3 voters; log terms [1,2,3] = 2 stable + 1 unstable; symbolic term/vote/leader/commit/applied/persisted/timers/flags; message term, commit, entry types symbolic): prev=(4,3), entry terms [3] - prev index beyond the last index -> reject; post-state compared with a sequence model",
      |s| c05::append_step(s, &F21T, 4, 3, &[3], c05::O_REJECT) }
    { append_empty, "C05,C01,C04,C14", quick, unwind = 8,
      "one Raft::step(MsgAppend) on a follower (3 voters; log terms [1,2,3] = 2 stable + 1 unstable; symbolic term/vote/leader/commit/applied/persisted/timers/flags; message term, commit, entry types symbolic): prev=(2,2), entry terms [] - empty append (commit only); post-state compared with a sequence model",
      |s| c05::append_step(s, &F21T, 2, 2, &[], c05::O_DUP) }
    { append_prefix0, "C05,C01,C04,C14", thorough, unwind = 8,
      "one Raft::step(MsgAppend) on a follower (3 voters; log terms [1,2,3] = 2 stable + 1 unstable; symbolic term/vote/leader/commit/applied/persisted/timers/flags; message term, commit, entry types symbolic): prev=(0,0), entry terms [1, 2] - from index 0, duplicate prefix; post-state compared with a sequence model",
      |s| c05::append_step(s, &F21T, 0, 0, &[1, 2], c05::O_DUP) }
    { append_conf_first, "C05,C01,C04,C14", thorough, unwind = 8,
      "one Raft::step(MsgAppend) on a follower (3 voters; log terms [1,2,3] = 2 stable + 1 unstable; symbolic term/vote/leader/commit/applied/persisted/timers/flags; message term, commit, entry types symbolic): prev=(0,0), entry terms [2, 2] - conflict at index 1 (requires commit = 0); post-state compared with a sequence model",
      |s| c05::append_step(s, &F21T, 0, 0, &[2, 2], c05::O_TRUNC) }
    { append_extend_gap, "C05,C01,C04,C14", thorough, unwind = 8,
      "one Raft::step(MsgAppend) on a follower (3 voters; log terms [1,2,3] = 2 stable + 1 unstable; symbolic term/vote/leader/commit/applied/persisted/timers/flags; message term, commit, entry types symbolic): prev=(2,2), entry terms [3, 5] - matching entry then extension with a term jump; post-state compared with a sequence model",
      |s| c05::append_step(s, &F21T, 2, 2, &[3, 5], c05::O_EXTEND) }
    { append_shorter_dup, "C05,C01,C04,C14", thorough, unwind = 8,
      "one Raft::step(MsgAppend) on a follower (3 voters; log terms [1,2,3] = 2 stable + 1 unstable; symbolic term/vote/leader/commit/applied/persisted/timers/flags; message term, commit, entry types symbolic): prev=(0,0), entry terms [1] - single duplicate entry far below the tail; post-state compared with a sequence model",
      |s| c05::append_step(s, &F21T, 0, 0, &[1], c05::O_DUP) }
    { append_rej_hint_walk, "C05,C01,C04,C14", thorough, unwind = 8,
      "one Raft::step(MsgAppend) on a follower (3 voters; log terms [1,2,3] = 2 stable + 1 unstable; symbolic term/vote/leader/commit/applied/persisted/timers/flags; message term, commit, entry types symbolic): prev=(3,2), entry terms [] - reject whose hint walks back over larger terms; post-state compared with a sequence model",
      |s| c05::append_step(s, &F21T, 3, 2, &[], c05::O_REJECT) }
    { append_below_compaction, "C20,C05,C15", quick, unwind = 8,
      "follower that compacted its applied log to index 2 (entries 3..=4, commit 4) receives a delayed duplicate MsgAppend anchored at index 1 with entries 2..=4: answered with the commit index, log untouched, no panic on the compacted anchor",
      |s| c05::append_below_compaction(s, &FC22) }
    { request_snapshot_ok, "C15,C04,C05", quick, unwind = 8,
      "follower request_snapshot(): accepted exactly with a known leader, no request pending and a last entry of the current term; the request names the last index (nothing the node acknowledged may be discarded by the unconditional install) and goes to the leader; symbolic leader id / pending request",
      |s| c15::request_snapshot_step(s, &F30_REQ) }
    { request_snapshot_old_term, "C15", quick, unwind = 8,
      "same with a last entry from an older term: dropped",
      |s| c15::request_snapshot_step(s, &F30_REQ_OLD) }
    { heartbeat_f21, "C05,C04,C01,C16", quick, unwind = 10,
      "one Raft::step(MsgHeartbeat) on a follower: commit rule, echo of context, log untouched, stale-term reply rule",
      |s| c05::heartbeat_step(s, &F21) }
    // ---------------- (pre)candidate: vote responses (C02 / C16) ----------------
    { voteresp_win3, "C02,C16,C03,C10,C13", quick, unwind = 8,
      "candidate (3 voters, own vote recorded) receives a grant at its term -> leader; tally oracle; first append broadcast well-formed",
      |s| c02::voteresp_step(s, &CAND3, 2, false, false, 5) }
    { voteresp_pending5, "C02,C03", quick, unwind = 8,
      "candidate in a 5-voter group with only its own vote receives one grant -> still pending, nothing changes",
      |s| c02::voteresp_step(s, &CAND5, 2, false, false, 5) }
    { voteresp_win5, "C02,C03", quick, unwind = 8,
      "candidate in a 5-voter group with two votes receives the third grant -> leader",
      |s| c02::voteresp_step(s, &CAND5_2, 2, false, false, 5) }
    { voteresp_lose5, "C02,C03", quick, unwind = 8,
      "candidate in a 5-voter group with two rejections receives the third -> follower at the same term",
      |s| c02::voteresp_step(s, &CAND5_R, 2, false, true, 5) }
    { voteresp_joint_half, "C02,C12,C03", quick, unwind = 8,
      "candidate in joint config {1,2,3}&&{1,3,4}: grant from 2 wins the incoming half only -> must stay candidate",
      |s| c02::voteresp_step(s, &CANDJ, 2, false, false, 5) }
    { voteresp_dup_flip, "C02,C03", quick, unwind = 8,
      "candidate whose peer 2 already rejected receives a (duplicate) grant from 2 -> the first answer stands, no leader",
      |s| c02::voteresp_step(s, &CAND3_DUP, 2, false, false, 5) }
    { voteresp_wrong_kind, "C02,C16,C03,C01,C05", quick, unwind = 8,
      "candidate receives a stale pre-vote grant -> ignored",
      |s| c02::voteresp_step(s, &CAND3, 2, true, false, 5) }
    { voteresp_stale_term, "C02,C03", quick, unwind = 8,
      "candidate receives a grant stamped with an older term -> ignored",
      |s| c02::voteresp_step(s, &CAND3, 2, false, false, 4) }
    { voteresp_nonvoter, "C02,C03", quick, unwind = 8,
      "candidate receives a grant from an id that is not a voter -> does not count",
      |s| c02::voteresp_step(s, &CAND3, 5, false, false, 5) }
    { prevoteresp_win, "C16,C02,C03", quick, unwind = 8,
      "pre-candidate (term 5) receives a pre-vote grant stamped 6 -> candidate at term 6, real vote requests carry the true log position",
      |s| c02::voteresp_step(s, &PRE3, 2, true, false, 6) }
    { prevoteresp_reject_same, "C16,C03", quick, unwind = 8,
      "pre-candidate receives a rejection at its own term from one of two peers -> pending, term unchanged",
      |s| c02::voteresp_step(s, &PRE3, 2, true, true, 5) }
    { prevoteresp_reject_higher, "C16,C03", quick, unwind = 8,
      "pre-candidate receives a rejection carrying a higher term -> follower at that term (the only way its term rises without winning)",
      |s| c02::voteresp_step(s, &PRE3, 2, true, true, 7) }
    { two_node_election, "C02,C03,C05,C01", quick, unwind = 8,
      "[2N] two real nodes: A (log [1,2,3]) campaigns, its real vote request is stepped into B (log [1,2], symbolic vote / leader), B's real response into A, A's first append into B: grant only if A is up to date, A leads only with the grant, one leader per term, B's log equals A's below the acknowledged index",
      |s| c02::two_node_election(s, &N2_A, &N2_B, false, false) }
    { two_node_election_behind, "C02,C03", quick, unwind = 8,
      "[2N] same with B's log ahead of A's: B must refuse and A must not become leader",
      |s| c02::two_node_election(s, &N2_A, &N2_B_AHEAD, true, false) }
    { two_node_transfer, "C17,C02,C03", quick, unwind = 8,
      "[2N] leadership transfer completion: A receives MsgTimeoutNow, campaigns with the transfer context, B grants, A leads the higher term holding every entry B has",
      |s| c02::two_node_election(s, &N2_A, &N2_B, false, true) }
    // ---------------- leader: append responses (C04 / C13 / C10 / C17) ----------------
    { appresp_ack_probe, "C04,C13,C10,C17,C05,C01,C20", quick, unwind = 8,
      "leader (3 voters, log 2 stable + 1 unstable, symbolic terms/commit/persisted/flags) receives an ack of index 2 from peer 2 in Probe state (matched 1, next 3): becomes Replicate, commit rule checked against a quorum oracle, emitted appends well-formed",
      |s| c04::appresp_step(s, &L21_PP, 2, 2, false, 0, 0, false, true) }
    { appresp_ack_unpersisted, "C04,C13,C06", quick, unwind = 8,
      "same, but the leader itself has persisted only index 1: the single ack of 2 is not a quorum, commit must stay",
      |s| c04::appresp_step(s, &L21_PP_UNPERSISTED, 2, 2, false, 0, 0, false, false) }
    { appresp_ack_window, "C04,C13,C10", quick, unwind = 8,
      "leader: ack of index 2 from a replicating peer with one inflight append (matched 1, next 3): window slot freed, next entry sent, commit advances",
      |s| c04::appresp_step(s, &L21_RW, 2, 2, false, 0, 0, false, true) }
    { appresp_ack_stale, "C04,C13", quick, unwind = 8,
      "leader: duplicate/stale ack (index 1 <= matched 2): nothing moves, nothing sent",
      |s| c04::appresp_step(s, &L21_STALE, 2, 1, false, 0, 0, false, false) }
    { appresp_reject_probe, "C10,C13,C04", quick, unwind = 8,
      "leader: rejection of the probe at index 2 with hint (1, term 1): next_idx falls to 2, probe re-sent, one entry-carrying append then paused",
      |s| c04::appresp_step(s, &L21_REJ, 2, 2, true, 1, 1, false, false) }
    { appresp_reject_stale, "C10,C13", thorough, unwind = 8,
      "leader: stale rejection (index 1 is not next-1): ignored",
      |s| c04::appresp_step(s, &L21_REJ, 2, 1, true, 0, 0, false, false) }
    { appresp_ack_transfer, "C17,C04,C13", quick, unwind = 8,
      "leader with a pending transfer to peer 2: ack of the last index (3) -> MsgTimeoutNow only now, to the target only",
      |s| c04::appresp_step(s, &L21_XFER, 2, 3, false, 0, 0, true, false) }
    { appresp_ack_transfer_partial, "C17,C04,C13", quick, unwind = 8,
      "leader with a pending transfer to peer 2 whose remaining entries are all in flight (next = last+1, matched 1): an ack of index 2 < last must not trigger MsgTimeoutNow",
      |s| c04::appresp_step(s, &L21_XFER_PART, 2, 2, false, 0, 0, true, true) }
    { appresp_ack_joint_no, "C04,C12", quick, unwind = 8,
      "leader in joint config {1,2,3}&&{1,3,4}: ack from 2 gives a majority of the incoming half only -> must not commit",
      |s| c04::appresp_step(s, &L21_JOINT, 2, 2, false, 0, 0, false, false) }
    { appresp_ack_joint_yes, "C04,C12", quick, unwind = 8,
      "leader in joint config {1,2,3}&&{1,2,4}: ack from 2 gives a majority of both halves -> commits",
      |s| c04::appresp_step(s, &L21_JOINT_OK, 2, 2, false, 0, 0, false, true) }
    { appresp_ack_snapshot_stale, "C13,C15,C10", quick, unwind = 8,
      "leader: a (delayed) ack of index 1 from a peer whose snapshot at index 3 is still outstanding: matched rises but the peer stays in Snapshot state and nothing is sent",
      |s| c04::appresp_step(s, &L21_SNAP_ACK, 2, 1, false, 0, 0, false, false) }
    { appresp_ack_snapshot_just_below, "C13,C15", quick, unwind = 8,
      "leader: a delayed ack of index 2 = one below the outstanding snapshot index 3: matched rises (and commits 2) but the peer stays in Snapshot state and no append is sent",
      |s| c04::appresp_step(s, &L21_SNAP_ACK, 2, 2, false, 0, 0, false, true) }
    { appresp_ack_snapshot_done, "C13,C15,C10", quick, unwind = 8,
      "leader: ack of index 2 = the pending snapshot index -> snapshot caught up, probing resumes after it",
      |s| c04::appresp_step(s, &L21_SNAP_DONE, 2, 2, false, 0, 0, false, true) }
    // ---------------- leader: heartbeat responses, local inputs, proposals, transfer, tick ----------------
    { hbresp_probe_paused, "C10,C13,C20", quick, unwind = 8,
      "leader: heartbeat response from a paused probing peer that is behind: resumed, exactly one append sent",
      |s| c04::hbresp_step(s, &L21_HB_PROBE, 2) }
    { hbresp_window_full, "C10,C13", quick, unwind = 8,
      "leader: heartbeat response from a replicating peer whose window (max_inflight 1) is full: one slot freed, one append sent, window never exceeds its capacity",
      |s| c04::hbresp_step(s, &L21_HB_FULL, 2) }
    { hbresp_snapshot, "C10,C13,C15", quick, unwind = 8,
      "leader: heartbeat response from a peer with an outstanding snapshot: nothing is sent",
      |s| c04::hbresp_step(s, &L21_HB_SNAP, 2) }
    { hbresp_caught_up, "C10,C13", thorough, unwind = 8,
      "leader: heartbeat response from a peer that has the whole log: nothing is sent",
      |s| c04::hbresp_step(s, &L21_HB_DONE, 2) }
    { leader_beat, "C13,C10,C05", quick, unwind = 8,
      "leader: MsgBeat -> one heartbeat per peer, commit advertised <= min(matched, commit)",
      |s| c04::local_step(s, &L21_HB_PROBE, 1, 2) }
    { leader_checkquorum_lost, "C16,C10,C04", quick, unwind = 8,
      "leader with check_quorum: no peer recently active -> steps down to follower at the same term",
      |s| c04::local_step(s, &L21_CQ_LOST, 2, 2) }
    { leader_checkquorum_ok, "C16,C10", quick, unwind = 8,
      "leader with check_quorum: one of two peers recently active (a quorum with self) -> stays leader, activity flags reset",
      |s| c04::local_step(s, &L21_CQ_OK, 2, 2) }
    { leader_unreachable, "C10,C13", quick, unwind = 8,
      "leader: MsgUnreachable for a replicating peer -> back to probing from matched+1",
      |s| c04::local_step(s, &L21_RW, 3, 2) }
    { leader_snapstatus, "C15,C10", quick, unwind = 8,
      "leader: MsgSnapStatus (finish/failure symbolic) for a peer in Snapshot state -> probing resumes at the right index, paused until the next ack",
      |s| c04::local_step(s, &L21_HB_SNAP, 4, 2) }
    { propose_normal, "C13,C05,C09,C20", quick, unwind = 8,
      "leader: proposal of one 2-byte entry, no size limit: appended with (term, last+1), broadcast to unpaused peers",
      |s| c04::propose_step(s, &L21_PROP, &[0], 2, 0, false, u64::MAX, 0) }
    { propose_limit_exact, "C13", quick, unwind = 8,
      "leader: max_uncommitted_size 7, 3 bytes outstanding, proposal of 2x2 bytes = exactly the limit -> admitted",
      |s| c04::propose_step(s, &L21_PROP, &[0, 0], 2, 0, false, 7, 3) }
    { propose_limit_over, "C13", quick, unwind = 8,
      "leader: max_uncommitted_size 6, 3 bytes outstanding, proposal of 2x2 bytes -> ProposalDropped, nothing changes",
      |s| c04::propose_step(s, &L21_PROP, &[0, 0], 2, 0, false, 6, 3) }
    { propose_limit_first, "C13", quick, unwind = 8,
      "leader: nothing outstanding -> a proposal larger than the limit is still admitted",
      |s| c04::propose_step(s, &L21_PROP, &[0, 0], 2, 0, false, 1, 0) }
    { propose_limit_empty, "C13", thorough, unwind = 8,
      "leader: empty payload is never refused even when the limit is exhausted",
      |s| c04::propose_step(s, &L21_PROP, &[0], 0, 0, false, 1, 5) }
    { propose_transfer, "C17", quick, unwind = 8,
      "leader with a transfer in progress refuses proposals",
      |s| c04::propose_step(s, &L21_PROP, &[0], 2, 0, true, u64::MAX, 0) }
    { propose_cc_ok, "C09", quick, unwind = 8,
      "leader: V1 membership proposal with nothing pending (pending_conf_index <= applied) -> kept, pending_conf_index = its index",
      |s| c04::propose_step(s, &L21_PROP, &[1], 0, 1, false, u64::MAX, 0) }
    { propose_cc_pending, "C09", quick, unwind = 8,
      "leader: membership proposal while another one is unapplied (pending_conf_index 3 > applied 1) -> replaced by an empty normal entry",
      |s| c04::propose_step(s, &L21_PROP, &[1], 0, 3, false, u64::MAX, 0) }
    { propose_normal_then_cc, "C09,C02", quick, unwind = 8,
      "leader: one proposal batching [normal entry, V1 membership change] -> pending_conf_index must be the index of the membership entry, not of the batch start",
      |s| c04::propose_step(s, &L21_PROP, &[0, 1], 1, 1, false, u64::MAX, 0) }
    { propose_cc_two, "C09,C01,C02", quick, unwind = 8,
      "leader: two membership entries in one proposal -> the second is replaced",
      |s| c04::propose_step(s, &L21_PROP, &[1, 3], 0, 1, false, u64::MAX, 0) }
    { propose_cc_leave_nonjoint, "C09", quick, unwind = 8,
      "leader not in a joint config: leave-joint proposal -> replaced",
      |s| c04::propose_step(s, &L21_PROP, &[2], 0, 1, false, u64::MAX, 0) }
    { propose_cc_enter_while_joint, "C09,C12", quick, unwind = 8,
      "leader already in a joint config: enter-joint proposal -> replaced; leave-joint accepted",
      |s| c04::propose_step(s, &L21_PROP_JOINT, &[3, 2], 0, 1, false, u64::MAX, 0) }
    { transfer_uptodate, "C17,C20", quick, unwind = 8,
      "leader: MsgTransferLeader naming a voter that holds the whole log -> MsgTimeoutNow immediately",
      |s| c04::transfer_step(s, &L21_HB_DONE, 2, None) }
    { transfer_lagging, "C17", quick, unwind = 8,
      "leader: transfer to a lagging voter -> append sent, no MsgTimeoutNow yet; a pending transfer to another node is replaced",
      |s| c04::transfer_step(s, &L21_HB_DONE, 3, Some(2)) }
    { transfer_learner, "C17", quick, unwind = 8,
      "leader: transfer naming a learner -> ignored",
      |s| c04::transfer_step(s, &L21_LEARNER, 4, Some(2)) }
    { transfer_unknown, "C17", quick, unwind = 8,
      "leader: transfer naming an unknown node -> ignored",
      |s| c04::transfer_step(s, &L21_HB_DONE, 9, Some(2)) }
    { transfer_self, "C17", quick, unwind = 8,
      "leader: transfer naming the leader itself -> at most cancels the pending transfer",
      |s| c04::transfer_step(s, &L21_HB_DONE, 1, Some(2)) }
    { transfer_same, "C17", thorough, unwind = 8,
      "leader: repeated transfer request to the same target -> no-op",
      |s| c04::transfer_step(s, &L21_HB_DONE, 2, Some(2)) }
    { leader_tick_timeout, "C17,C10,C16,C20", quick, unwind = 8,
      "leader tick reaching election_timeout with a pending transfer: transfer abandoned; heartbeat due -> one per peer",
      |s| c04::leader_tick(s, &L21_HB_PROBE, 9, 2, true) }
    { leader_tick_timeout_cq, "C17,C10,C16", quick, unwind = 8,
      "same with check_quorum on and a quorum of recently active peers: the leader stays in office and the pending transfer is abandoned all the same",
      |s| c04::leader_tick(s, &L21_CQ_OK, 9, 2, true) }
    { leader_tick_quiet, "C10,C17", quick, unwind = 8,
      "leader tick in the middle of both intervals: nothing happens, transfer stays pending",
      |s| c04::leader_tick(s, &L21_HB_PROBE, 3, 0, true) }
    { leader_tick_cq_lost, "C16,C10", quick, unwind = 8,
      "leader tick reaching election_timeout with check_quorum and no active peer -> steps down",
      |s| c04::leader_tick(s, &L21_CQ_LOST, 9, 0, false) }
    { persist_ok, "C04,C06,C05", quick, unwind = 8,
      "leader on_persist_entries(2, term 2) with persisted 1: persisted and own matched move to 2; commit follows the quorum oracle",
      |s| c04::persist_step(s, &L21_PERSIST, 2, 2) }
    { persist_unstable, "C04,C06", quick, unwind = 8,
      "leader on_persist_entries(3, 2): index 3 is still in the unstable suffix -> ignored",
      |s| c04::persist_step(s, &L21_PERSIST, 3, 2) }
    { persist_wrong_term, "C04,C06", quick, unwind = 8,
      "leader on_persist_entries(2, term 1): term does not match storage -> ignored",
      |s| c04::persist_step(s, &L21_PERSIST, 2, 1) }
    // ---------------- RawNode: Ready / advance / persist contract (C06 / C07 / C20 / C15) ----------------
    { rn_vote_higher, "C06,C07,C02,C20", quick, unwind = 8,
      "RawNode follower (term 5, log [1,2,3] persisted, commit=applied=1): MsgRequestVote at term 7 with an up-to-date log -> ready/persist/advance: grant only in persisted_messages, hs carries (7, vote), must_sync, committed entries 2..=3? no: commit 1 -> none; every Ready clause checked",
      |s| rawnode::cycle(s, &RnShape::of(RF), &Input::vote(7), &Input::NONE) }
    { rn_vote_same_term, "C06,C07,C02,C20", quick, unwind = 8,
      "RawNode follower whose term 5 is already persisted (vote / leader symbolic): MsgRequestVote at term 5 -> if granted the Ready differs from the persisted hard state only in the vote and must still be must_sync",
      |s| rawnode::cycle(s, &RnShape::of(RF), &Input::vote(5), &Input::NONE) }
    { rn_append_extend, "C07,C06,C01,C05,C20", quick, unwind = 8,
      "RawNode follower: MsgAppend extending the log by entry 4 with commit 4 -> Ready hands entries [4] to persist and committed entries 2..=3 (persisted ones only), advance hands 4 in the LightReady: exact, ordered, no gap/duplicate",
      |s| rawnode::cycle(s, &RnShape::of(RF), &Input::append(5, 3, 3, &[5], 4), &Input::NONE) }
    { rn_heartbeat_commit, "C07,C01,C20", quick, unwind = 8,
      "RawNode follower: heartbeat raising commit to 3 -> committed entries 2..=3 handed once, hs changes in commit only (must_sync false)",
      |s| rawnode::cycle(s, &RnShape::of(RF), &Input::heartbeat(5, 3), &Input::NONE) }
    { rn_paged_apply, "C07,C01", quick, unwind = 8,
      "RawNode follower, max_committed_size_per_ready = 0 (one committed entry per hand-off): a heartbeat commits 2..=3 -> Ready hands out 2, the LightReady of advance hands out 3, nothing twice, nothing skipped, has_ready false afterwards",
      |s| rawnode::cycle_drain(s, &RnShape::of(RF.with_etypes(&[0, 0, 0])).page0(), &Input::heartbeat(5, 3), 1) }
    { rn_paged_apply_3, "C07,C01", quick, unwind = 8,
      "same from applied = 0 with three entries to hand out: Ready 1, LightReady 2, next Ready 3",
      |s| rawnode::cycle_drain(s, &RnShape::of(RF0.with_etypes(&[0, 0, 0])).page0(), &Input::heartbeat(5, 3), 2) }
    { rn_apply_ahead, "C07,C01", quick, unwind = 8,
      "RawNode follower with max_apply_unpersisted_log_limit = 1: an append brings 4..=5 and commits 5 while only 1..=3 are persisted -> the Ready hands out 2..=4 (one unpersisted entry, across the stable/unstable boundary), after persistence the rest",
      |s| rawnode::cycle_drain(s, &RnShape::of(RF).apply_ahead(1), &Input::append(5, 3, 3, &[5, 5], 5), 1) }
    { rn_apply_ahead_2, "C07", quick, unwind = 8,
      "same with max_apply_unpersisted_log_limit = 2: the whole committed range 2..=5 (two unpersisted entries) is handed out by the first Ready, nothing is left for the second",
      |s| rawnode::cycle_drain(s, &RnShape::of(RF).apply_ahead(2), &Input::append(5, 3, 3, &[5, 5], 5), 1) }
    { rn_apply_ahead_nolimit, "C07,C20", quick, unwind = 8,
      "same with max_apply_unpersisted_log_limit = u64::MAX (the library's NO_LIMIT idiom; Config::validate accepts every u64): the bound min(committed, persisted + limit) must not overflow; everything committed is handed out by the first Ready",
      |s| rawnode::cycle_drain(s, &RnShape::of(RF).apply_ahead(u64::MAX), &Input::append(5, 3, 3, &[5, 5], 5), 1) }
    { rn_async_append, "C07,C06,C01", quick, unwind = 8,
      "RawNode follower, asynchronous persistence: an append brings 4..=5 and commits 5; Ready hands out 2..=3 (persisted), advance_append_async must not move the persisted index, on_persist_ready(number) moves it to 5, the next Ready hands out exactly 4..=5",
      |s| rawnode::cycle_async(s, &RnShape::of(RF), &Input::append(5, 3, 3, &[5, 5], 5)) }
    { rn_async_snapshot, "C07,C15,C06", quick, unwind = 8,
      "RawNode follower, asynchronous persistence of a snapshot Ready (index 5): nothing counts as persisted before the notice; after it persisted = applied base = 5 and nothing is handed out twice",
      |s| rawnode::cycle_async(s, &RnShape::of(RF), &Input::snapshot(5, 5, 4)) }
    { rn_singleton_learner_stepdown_recampaign, "C06,C02,C05", quick, unwind = 8,
      "RawNode single voter + learner, leader with everything persisted: told of a higher term by a vote request it grants, then campaigns and wins again at once, all before the next Ready: that Ready persists the new term and vote, so neither the grant nor the new leader's append may be released ahead of it",
      |s| rawnode::cycle(s, &RnShape::of(RS1L_LEADER), &Input::vote(7), &Input::HUP) }
    { rn_leader_commit_only, "C07,C04", quick, unwind = 8,
      "RawNode leader with skip_bcast_commit and an in-flight (unpersisted) Ready covering 2..=3: a follower's ack makes a quorum for 3 -> only the commit index changes (nothing to send, nothing persisted to hand out): has_ready() must be true, the Ready carries exactly the hard state; after persistence the entries are handed out",
      |s| rawnode::cycle(s, &RnShape::of(RL_ASYNC_SKIP).records(&[(1, Some((3, 2)), None)], 1), &Input::appresp(2, 3), &Input::NONE) }
    { rn_restart_applied_ahead, "C07,C06", quick, unwind = 8,
      "RawNode::new where the configured applied index (2) is ahead of the durable commit index (1) - a commit-only hard-state update need not be synced: the hand-off cursor starts right after the configured applied index",
      |s| rawnode::restart(s, 0, 3, 1, 2, false) }
    { rn_async_overwrite, "C07,C04,C14,C06,C20", quick, unwind = 8,
      "RawNode follower with an in-flight Ready (entries 2..3 of term 1 written, fsync notice outstanding): a new leader's append overwrites 2..3 (term 2) and commits 3, then the stale notice arrives -> persisted must not move onto the new, unwritten entries; nothing unpersisted is handed out",
      |s| rawnode::async_overwrite(s, &RnShape::of(RF_ASYNC).records(&[(1, Some((3, 1)), None)], 1), &Input::append(5, 1, 1, &[2, 2], 3), 1) }
    { rn_async_overwrite_last, "C07,C04,C14,C06", quick, unwind = 8,
      "same, but the new leader's append overwrites exactly the last in-flight entry (index 3) - the stale notice names the very index at which the unwritten suffix now starts, and the store still holds the old entry with the noticed term",
      |s| rawnode::async_overwrite(s, &RnShape::of(RF_ASYNC).records(&[(1, Some((3, 1)), None)], 1), &Input::append(5, 2, 1, &[2], 3), 1) }
    { rn_leader_propose, "C06,C07,C13,C20", quick, unwind = 8,
      "RawNode leader (term persisted): propose -> Ready releases the appends immediately (leader), carrying a durable term; entries handed once; advance persists and may commit",
      |s| rawnode::cycle(s, &RnShape::of(RL_ACTIVE), &Input::propose(2), &Input::NONE) }
    { rn_stepdown_grant, "C06,C04,C01,C02,C20", quick, unwind = 8,
      "RawNode that was leader at its previous Ready receives a higher-term vote request, steps down and grants in the same round -> the grant must wait for persistence (persisted_messages), not go out with the leader's immediate messages",
      |s| rawnode::cycle(s, &RnShape::of(RL), &Input::vote(7), &Input::NONE) }
    { rn_stepdown_append, "C06,C04,C07,C20", quick, unwind = 8,
      "RawNode that was leader at its previous Ready is deposed by a higher-term MsgAppend carrying an entry -> its MsgAppendResponse is a persisted message",
      |s| rawnode::cycle(s, &RnShape::of(RL), &Input::append(7, 3, 2, &[7], 1), &Input::NONE) }
    { rn_singleton_campaign, "C06,C20,C02", quick, unwind = 8,
      "RawNode single voter without learners campaigns: wins in the same step; Ready contract",
      |s| rawnode::cycle(s, &RnShape::of(RS1), &Input::HUP, &Input::NONE) }
    { rn_singleton_learner_campaign, "C06,C20,C05", quick, unwind = 8,
      "RawNode single voter WITH a learner campaigns: it wins inside the same step and appends to the learner; those messages must not be released before the new term and self-vote are persisted",
      |s| rawnode::cycle(s, &RnShape::of(RS1L), &Input::HUP, &Input::NONE) }
    { rn_snapshot, "C15,C07,C06,C20", quick, unwind = 8,
      "RawNode follower: MsgSnapshot (index 5 > last 3) -> Ready carries the snapshot, no committed entries, must_sync; after advance applied = commit_since = 5",
      |s| rawnode::cycle(s, &RnShape::of(RF), &Input::snapshot(5, 5, 4), &Input::NONE) }
    { rn_snapshot_then_hup, "C20,C15,C09", quick, unwind = 8,
      "RawNode follower steps MsgSnapshot and is asked to campaign before the Ready round: no panic, Ready contract holds",
      |s| rawnode::cycle(s, &RnShape::of(RF), &Input::snapshot(5, 5, 4), &Input::HUP) }
    { rn_singleton_stepdown_recampaign, "C20", quick, unwind = 8,
      "RawNode single voter leading with an unpersisted entry is told of a higher term by a node outside its configuration (a removed peer still campaigning), steps down, and campaigns again before the application has processed a Ready: must not panic",
      |s| rawnode::cycle(s, &RnShape::of(RS1_LEADER), &Input::vote(7), &Input::HUP) }
    { rn_restart, "C06,C02,C01,C07,C09", quick, unwind = 8,
      "RawNode::new on a durable image (3 entries with symbolic terms, hard state with symbolic term / vote and commit 2, applied 1, voters {1,2,3}): term, vote, commit = the durable hard state, log untouched, follower, apply resumes after the applied index, configuration reproduced",
      |s| rawnode::restart(s, 0, 3, 2, 1, false) }
    { rn_restart_compacted_learner, "C06,C02,C09,C15", thorough, unwind = 8,
      "same from a compacted image (snapshot point 4, entries 5..=6) with a learner in the configuration",
      |s| rawnode::restart(s, 4, 2, 1, 1, true) }
    { rn_restart_joint, "C06,C12,C20,C09", quick, unwind = 8,
      "RawNode::new on a durable image taken in the middle of a membership change ({1,2}&&{1,2,3}, learner 4, voter 3 staged as learner, auto-leave): restart succeeds and reproduces the joint configuration exactly",
      |s| rawnode::restart_conf(s, 0, 3, 2, 1, true, true) }
    { rn_step_rejects, "C20", quick, unwind = 8,
      "RawNode::step refuses the five local message types and responses from a non-member, state untouched",
      |s| rawnode::step_rejects(s, &RnShape::of(RF)) }
    // ---------------- C15 snapshot install / sending ----------------
    { snap_stale, "C15,C01", quick, unwind = 8,
      "follower (log [1,2,3], commit 2): MsgSnapshot at index 1 < commit -> ignored, acknowledged with the commit index, nothing discarded",
      |s| c15::snapshot_step(s, &FS, 1, 9, &[1, 2, 3], &[], &[], &[], false, false) }
    { snap_nonmember, "C15", quick, unwind = 8,
      "follower: MsgSnapshot whose ConfState does not list this node -> ignored",
      |s| c15::snapshot_step(s, &FS, 5, 4, &[2, 3, 4], &[], &[], &[], false, false) }
    { snap_matching, "C15,C01", quick, unwind = 8,
      "follower: MsgSnapshot whose (index 3, term) already matches the local log and was not requested -> only the commit index advances, nothing is discarded",
      |s| c15::snapshot_step(s, &FS, 3, 0, &[1, 2, 3], &[], &[], &[], false, false) }
    { snap_matching_requested, "C15", quick, unwind = 8,
      "follower that requested a snapshot: a matching snapshot is installed all the same",
      |s| c15::snapshot_step(s, &FS, 3, 0, &[1, 2, 3], &[], &[], &[], true, false) }
    { snap_install_continue, "C15,C05,C20", quick, unwind = 8,
      "follower: MsgSnapshot at index 5 beyond the log -> installed: commit/last/boundary term/configuration/progress as if the log had been applied up to 5; a following MsgAppend at (5, term) is accepted and the log continues at 6",
      |s| c15::snapshot_step(s, &FS, 5, 4, &[1, 2, 3], &[], &[], &[], false, true) }
    { snap_install_joint, "C15,C12,C09,C20", quick, unwind = 8,
      "follower: snapshot carrying a joint configuration {1,2}&&{1,2,3} with learner 4 and staged learner 3 -> configuration reproduced exactly, node stays promotable",
      |s| c15::snapshot_step(s, &FS, 5, 4, &[1, 2], &[1, 2, 3], &[4], &[3], false, false) }
    { snap_install_outgoing_only, "C15,C09,C10", quick, unwind = 8,
      "follower: snapshot whose joint configuration lists this node only in the outgoing half -> installed, still promotable",
      |s| c15::snapshot_step(s, &FS, 5, 4, &[2, 3], &[1, 2, 3], &[], &[], false, false) }
    { snap_install_over_autoleave_joint, "C15,C12", quick, unwind = 8,
      "follower that is itself in an auto-leave joint configuration receives a snapshot carrying the final simple configuration: installed, configuration replaced completely (auto-leave flag and staged learners included)",
      |s| c15::snapshot_step(s, &FS_AUTOJOINT, 5, 4, &[1, 2, 3], &[], &[], &[], false, false) }
    { snap_install_as_learner, "C15,C09", thorough, unwind = 8,
      "follower: snapshot listing this node as learner only -> installed, no longer promotable",
      |s| c15::snapshot_step(s, &FS, 5, 4, &[2, 3], &[], &[1], &[], false, false) }
    { lsnap_needed, "C15,C10,C13", quick, unwind = 8,
      "leader over a compacted log: heartbeat response from a recently active peer whose next entries are compacted away -> MsgSnapshot, progress enters Snapshot with pending = snapshot index",
      |s| c04::hbresp_step_snap(s, &LC_NEED, 2, true) }
    { lsnap_inactive, "C15,C13", quick, unwind = 8,
      "same, but the storage cannot produce a snapshot right now (SnapshotTemporarilyUnavailable) -> nothing sent, progress unchanged",
      |s| c04::hbresp_step_snap(s, &LC_NEED, 2, false) }
    // ---------------- C08 read index ----------------
    { read_quorum3, "C08,C04", quick, unwind = 8,
      "leader of 3 (committed in its term): local read request, then a heartbeat response with the context from one peer -> quorum (self + 1): read state with the commit index recorded at request time",
      |s| c08::leader_read(s, &L21_READ, 0, &[(2, 7)], true) }
    { read_wrong_ctx, "C08", quick, unwind = 8,
      "leader of 3: a heartbeat response carrying a different context does not release the read",
      |s| c08::leader_read(s, &L21_READ, 0, &[(2, 8)], false) }
    { read_5_one_ack, "C08", quick, unwind = 8,
      "leader of 5: one acknowledgement (2 of 5 with self) is not a quorum -> still pending",
      |s| c08::leader_read(s, &L5_READ, 0, &[(2, 7)], false) }
    { read_5_two_acks, "C08", quick, unwind = 8,
      "leader of 5: two acknowledgements -> released",
      |s| c08::leader_read(s, &L5_READ, 0, &[(2, 7), (4, 7)], true) }
    { read_dup_ack, "C08", quick, unwind = 8,
      "leader of 5: the same peer acknowledging twice counts once",
      |s| c08::leader_read(s, &L5_READ, 0, &[(2, 7), (2, 7)], false) }
    { read_joint_half, "C08,C12", quick, unwind = 8,
      "leader in joint config {1,2,3}&&{1,3,4}: ack from 2 is a majority of the incoming half only -> not released; with 3 as well -> released",
      |s| c08::leader_read(s, &LJ_READ, 0, &[(2, 7)], false) }
    { read_joint_both, "C08,C12", quick, unwind = 8,
      "leader in joint config {1,2,3}&&{1,3,4}: acks from 2 and 3 -> majority of both halves -> released",
      |s| c08::leader_read(s, &LJ_READ, 0, &[(2, 7), (3, 7)], true) }
    { read_learner_ack, "C08", quick, unwind = 8,
      "leader of 3 + learner 4: an acknowledgement from the learner does not count",
      |s| c08::leader_read(s, &LL_READ, 0, &[(4, 7)], false) }
    { read_dup_ctx, "C08,C20", quick, unwind = 8,
      "leader of 3: forwarded reads with contexts A, B, A (duplicate while pending), one quorum round on B serves both, then a fresh read is served: queue and pending map stay consistent",
      |s| c08::read_dups(s, &L21_READ) }
    { read_two_pending, "C08", quick, unwind = 8,
      "leader of 3: reads A (local) and B (forwarded) pending; a quorum acknowledges A's heartbeat only -> A released, B still pending and unanswered; B's own quorum round then answers B",
      |s| c08::read_two_pending(s, &L21_READ) }
    { read_joint_single_incoming, "C08,C12", quick, unwind = 8,
      "leader in joint config {1}&&{1,2,3} (shrinking to itself): no single-voter fast path - the read waits for a majority of the outgoing half",
      |s| c08::leader_read(s, &LJ1_READ, 0, &[], false) }
    { read_joint_single_incoming_ack, "C08,C12", quick, unwind = 8,
      "same, with an acknowledgement from 2 (majority of {1,2,3} with self) -> released",
      |s| c08::leader_read(s, &LJ1_READ, 0, &[(2, 7)], true) }
    { read_joint_one_each, "C08,C12", quick, unwind = 8,
      "leader in joint config {1}&&{2} (replacing the single voter): no single-voter fast path; released once 2 acknowledged",
      |s| c08::leader_read(s, &LJ11_READ, 0, &[], false) }
    { read_joint_one_each_ack, "C08,C12", quick, unwind = 8,
      "same with the acknowledgement from 2 -> released",
      |s| c08::leader_read(s, &LJ11_READ, 0, &[(2, 7)], true) }
    { read_same_ctx_two_origins, "C08,C20", quick, unwind = 8,
      "leader of 3: the same context requested locally and, while pending, forwarded by follower 3: the duplicate is dropped, queue and pending map stay consistent, later reads are served (no internal check trips)",
      |s| c08::read_same_ctx_two_origins(s, &L21_READ) }
    { read_forwarded, "C08,C04", quick, unwind = 8,
      "leader of 3: request forwarded by follower 3, ack from 2 -> MsgReadIndexResp to 3 only, nothing in the leader's own read states",
      |s| c08::leader_read(s, &L21_READ, 3, &[(2, 7)], true) }
    { read_not_committed_in_term, "C08", quick, unwind = 8,
      "leader whose commit index still points at an older-term entry: read requests are dropped",
      |s| c08::leader_read(s, &L21_READ_OLDTERM, 0, &[], false) }
    { read_singleton, "C08", quick, unwind = 8,
      "single-voter leader that committed in its term answers immediately with the commit index",
      |s| c08::leader_read(s, &S1_READ, 0, &[], true) }
    { read_singleton_not_committed, "C08", quick, unwind = 8,
      "single-voter leader that has not yet committed in its term must not answer (no fast path before the own-term check)",
      |s| c08::leader_read(s, &S1_READ_OLD, 0, &[], false) }
    { read_then_stepdown, "C08,C20", quick, unwind = 8,
      "leader with a pending read learns of a higher term: the pending read is forgotten and a late acknowledgement answers nothing",
      |s| c08::read_then_stepdown(s, &L21_READ) }
    { read_follower, "C08,C04,C01", quick, unwind = 8,
      "follower: forwards MsgReadIndex to its leader (or drops it without one); MsgReadIndexResp becomes a read state with the carried index; commit moves only on a matching term (symbolic index / terms)",
      |s| c08::follower_read(s, &F30) }
    { stray_prevote_grant_follower, "C16,C02", quick, unwind = 8,
      "follower (term 5) receives a delayed pre-vote grant stamped 6: ignored, its term does not move",
      |s| c02::voteresp_step(s, &FS, 2, true, false, 6) }
    { stray_prevote_grant_leader, "C16,C02", quick, unwind = 8,
      "leader (term 2) receives a delayed pre-vote grant stamped 3: ignored, no step-down",
      |s| c02::voteresp_step(s, &L21_PP, 2, true, false, 3) }
    { hup_tick_fires, "C10,C09,C16,C03", quick, unwind = 8,
      "follower tick with symbolic elapsed/randomized timeout: campaigns exactly when the randomized timeout is reached and the node is promotable; requests carry the true log position",
      |s| c09::hup_step(s, &F30.with_applied(3).with_commit(3), 2) }
    { timeoutnow_follower, "C17,C09", quick, unwind = 8,
      "follower receiving MsgTimeoutNow campaigns at once with a real vote (never pre-vote) carrying the transfer context",
      |s| c09::hup_step(s, &F30.with_applied(3).with_commit(3), 1) }
    { timeoutnow_learner, "C17,C09", quick, unwind = 8,
      "a learner (not a voter of its own configuration) ignores MsgTimeoutNow and election timeouts",
      |s| c09::hup_step(s, &F30.with_applied(3).with_commit(3).with_conf(&[2, 3], &[], &[1], &[], false), 1) }
    { leader_tick_cq_lost_states, "C10,C04,C16,C15", quick, unwind = 8,
      "leader with check_quorum whose peers are in Snapshot and Replicate state and inactive: the tick that reaches election_timeout makes it step down, and every progress is reset (acknowledgements forgotten, back to Probe, windows emptied)",
      |s| c04::leader_tick(s, &L21_CQ_LOST2, 9, 0, false) }
    { appresp_batch_overlap, "C05,C13", quick, unwind = 8,
      "leader with batch_append: an append 1..=3 is queued for peer 2 when a delayed ack of index 1 rewinds next_idx to 2: the overlapping entries must not be glued onto the queued message",
      |s| c04::appresp_batch_step(s, &L21_BATCH, 2) }
    // ---------------- C09 campaign gating ----------------
    { hup_f30_pending, "C09,C03,C16", quick, unwind = 8,
      "Raft::step(MsgHup) on a follower (3 voters, log of 3, applied=1, commit=3, entry 3 is a ConfChangeV2): must not campaign; symbolic term/vote/leader/timers/flags",
      |s| c09::hup_step(s, &F30.with_applied(1).with_commit(3).with_etypes(&[0, 0, 2]), 0) }
    { hup_f30_clear, "C09,C03,C16", quick, unwind = 8,
      "same with only normal entries in (applied, commit]: campaigns (pre-vote or vote per flag), requests carry true last index/term/commit",
      |s| c09::hup_step(s, &F30.with_applied(1).with_commit(3).with_etypes(&[1, 0, 0]), 0) }
    { hup_f30_pending_last_only, "C09,C03,C02", quick, unwind = 8,
      "MsgHup on a follower with exactly one committed-but-unapplied entry (applied=2, commit=3) which is a ConfChangeV2: must not campaign",
      |s| c09::hup_step(s, &F30.with_applied(2).with_commit(3).with_etypes(&[0, 0, 2]), 0) }
    { hup_f30_pending_paged_mid, "C09,C03,C02", quick, unwind = 8,
      "MsgHup with the scan of unapplied entries paged one entry at a time (max_committed_size_per_ready = 0; log terms [1,2,3] and term 5 concrete so that entry sizes are), applied=0, commit=3, the ConfChange is the middle entry: a later page without membership change must not clear the hit",
      |s| c09::hup_step_paged(s, &F30.with_terms(&[1, 2, 3]).with_term(5).with_applied(0).with_commit(3).with_etypes(&[0, 1, 0]), 0, Some(0)) }
    { hup_f30_pending_paged_last, "C09,C03,C02", quick, unwind = 8,
      "same paging, the ConfChangeV2 is in the last page: the scan must not stop after a first page without membership change",
      |s| c09::hup_step_paged(s, &F30.with_terms(&[1, 2, 3]).with_term(5).with_applied(0).with_commit(3).with_etypes(&[0, 0, 2]), 0, Some(0)) }
    { timeoutnow_paged_last, "C09,C17", quick, unwind = 8,
      "MsgTimeoutNow with the paged scan, ConfChangeV2 in the last page: the transfer target must not campaign",
      |s| c09::hup_step_paged(s, &F30.with_terms(&[1, 2, 3]).with_term(5).with_applied(0).with_commit(3).with_etypes(&[0, 0, 2]), 1, Some(0)) }
    // ---------------- C11 quorum arithmetic ----------------
    { @nostub quorum_ci_0_0, "C11", quick, unwind = 8,
      "JointConfig/MajorityConfig::committed_index for halves of 0 and 0 voters: symbolic distinct ids per half (overlap free), symbolic 64-bit acked indexes, some ids unknown to the indexer; group commit with symbolic groups 0..3; counting oracle",
      |s| c11::committed_index(s, 0, 0, true) }
    { @nostub quorum_vote_0_0, "C11", quick, unwind = 8,
      "JointConfig::vote_result for halves of 0 and 0 voters: symbolic ids, symbolic yes/no/missing per id; won/lost/pending oracle",
      |s| c11::vote_result(s, 0, 0) }
    { @nostub quorum_ci_0_3, "C11", thorough, unwind = 8,
      "JointConfig/MajorityConfig::committed_index for halves of 0 and 3 voters: symbolic distinct ids per half (overlap free), symbolic 64-bit acked indexes, some ids unknown to the indexer; group commit with symbolic groups 0..3; counting oracle",
      |s| c11::committed_index(s, 0, 3, true) }
    { @nostub quorum_vote_0_3, "C11", thorough, unwind = 8,
      "JointConfig::vote_result for halves of 0 and 3 voters: symbolic ids, symbolic yes/no/missing per id; won/lost/pending oracle",
      |s| c11::vote_result(s, 0, 3) }
    { @nostub quorum_ci_1_0, "C11", quick, unwind = 8,
      "JointConfig/MajorityConfig::committed_index for halves of 1 and 0 voters: symbolic distinct ids per half (overlap free), symbolic 64-bit acked indexes, some ids unknown to the indexer; group commit with symbolic groups 0..3; counting oracle",
      |s| c11::committed_index(s, 1, 0, true) }
    { @nostub quorum_vote_1_0, "C11", quick, unwind = 8,
      "JointConfig::vote_result for halves of 1 and 0 voters: symbolic ids, symbolic yes/no/missing per id; won/lost/pending oracle",
      |s| c11::vote_result(s, 1, 0) }
    { @nostub quorum_ci_1_1, "C11", thorough, unwind = 8,
      "JointConfig/MajorityConfig::committed_index for halves of 1 and 1 voters: symbolic distinct ids per half (overlap free), symbolic 64-bit acked indexes, some ids unknown to the indexer; group commit with symbolic groups 0..3; counting oracle",
      |s| c11::committed_index(s, 1, 1, true) }
    { @nostub quorum_vote_1_1, "C11", thorough, unwind = 8,
      "JointConfig::vote_result for halves of 1 and 1 voters: symbolic ids, symbolic yes/no/missing per id; won/lost/pending oracle",
      |s| c11::vote_result(s, 1, 1) }
    { @nostub quorum_ci_2_0, "C11", quick, unwind = 8,
      "JointConfig/MajorityConfig::committed_index for halves of 2 and 0 voters: symbolic distinct ids per half (overlap free), symbolic 64-bit acked indexes, some ids unknown to the indexer; group commit with symbolic groups 0..3; counting oracle",
      |s| c11::committed_index(s, 2, 0, true) }
    { @nostub quorum_vote_2_0, "C11", quick, unwind = 8,
      "JointConfig::vote_result for halves of 2 and 0 voters: symbolic ids, symbolic yes/no/missing per id; won/lost/pending oracle",
      |s| c11::vote_result(s, 2, 0) }
    { @nostub quorum_ci_2_1, "C11", thorough, unwind = 8,
      "JointConfig/MajorityConfig::committed_index for halves of 2 and 1 voters: symbolic distinct ids per half (overlap free), symbolic 64-bit acked indexes, some ids unknown to the indexer; group commit with symbolic groups 0..3; counting oracle",
      |s| c11::committed_index(s, 2, 1, true) }
    { @nostub quorum_vote_2_1, "C11", thorough, unwind = 8,
      "JointConfig::vote_result for halves of 2 and 1 voters: symbolic ids, symbolic yes/no/missing per id; won/lost/pending oracle",
      |s| c11::vote_result(s, 2, 1) }
    { @nostub quorum_ci_2_2, "C11", thorough, unwind = 8,
      "JointConfig/MajorityConfig::committed_index for halves of 2 and 2 voters: symbolic distinct ids per half (overlap free), symbolic 64-bit acked indexes, some ids unknown to the indexer; group commit with symbolic groups 0..3; counting oracle",
      |s| c11::committed_index(s, 2, 2, true) }
    { @nostub quorum_vote_2_2, "C11", thorough, unwind = 8,
      "JointConfig::vote_result for halves of 2 and 2 voters: symbolic ids, symbolic yes/no/missing per id; won/lost/pending oracle",
      |s| c11::vote_result(s, 2, 2) }
    { @nostub quorum_ci_2_3, "C11", quick, unwind = 8,
      "JointConfig/MajorityConfig::committed_index for halves of 2 and 3 voters: symbolic distinct ids per half (overlap free), symbolic 64-bit acked indexes, some ids unknown to the indexer; group commit with symbolic groups 0..3; counting oracle",
      |s| c11::committed_index(s, 2, 3, true) }
    { @nostub quorum_vote_2_3, "C11", quick, unwind = 8,
      "JointConfig::vote_result for halves of 2 and 3 voters: symbolic ids, symbolic yes/no/missing per id; won/lost/pending oracle",
      |s| c11::vote_result(s, 2, 3) }
    { @nostub quorum_ci_3_0, "C11", quick, unwind = 8,
      "JointConfig/MajorityConfig::committed_index for halves of 3 and 0 voters: symbolic distinct ids per half (overlap free), symbolic 64-bit acked indexes, some ids unknown to the indexer; group commit with symbolic groups 0..3; counting oracle",
      |s| c11::committed_index(s, 3, 0, true) }
    { @nostub quorum_vote_3_0, "C11", quick, unwind = 8,
      "JointConfig::vote_result for halves of 3 and 0 voters: symbolic ids, symbolic yes/no/missing per id; won/lost/pending oracle",
      |s| c11::vote_result(s, 3, 0) }
    { @nostub quorum_ci_3_1, "C11", thorough, unwind = 8,
      "JointConfig/MajorityConfig::committed_index for halves of 3 and 1 voters: symbolic distinct ids per half (overlap free), symbolic 64-bit acked indexes, some ids unknown to the indexer; group commit with symbolic groups 0..3; counting oracle",
      |s| c11::committed_index(s, 3, 1, true) }
    { @nostub quorum_vote_3_1, "C11", thorough, unwind = 8,
      "JointConfig::vote_result for halves of 3 and 1 voters: symbolic ids, symbolic yes/no/missing per id; won/lost/pending oracle",
      |s| c11::vote_result(s, 3, 1) }
    { @nostub quorum_ci_3_2, "C11", thorough, unwind = 8,
      "JointConfig/MajorityConfig::committed_index for halves of 3 and 2 voters: symbolic distinct ids per half (overlap free), symbolic 64-bit acked indexes, some ids unknown to the indexer; group commit with symbolic groups 0..3; counting oracle",
      |s| c11::committed_index(s, 3, 2, true) }
    { @nostub quorum_vote_3_2, "C11", thorough, unwind = 8,
      "JointConfig::vote_result for halves of 3 and 2 voters: symbolic ids, symbolic yes/no/missing per id; won/lost/pending oracle",
      |s| c11::vote_result(s, 3, 2) }
    { @nostub quorum_ci_3_3, "C11", quick, unwind = 8,
      "JointConfig/MajorityConfig::committed_index for halves of 3 and 3 voters: symbolic distinct ids per half (overlap free), symbolic 64-bit acked indexes, some ids unknown to the indexer; group commit with symbolic groups 0..3; counting oracle",
      |s| c11::committed_index(s, 3, 3, true) }
    { @nostub quorum_vote_3_3, "C11", quick, unwind = 8,
      "JointConfig::vote_result for halves of 3 and 3 voters: symbolic ids, symbolic yes/no/missing per id; won/lost/pending oracle",
      |s| c11::vote_result(s, 3, 3) }
    { @nostub quorum_ci_4_0, "C11", thorough, unwind = 8,
      "JointConfig/MajorityConfig::committed_index for halves of 4 and 0 voters: symbolic distinct ids per half (overlap free), symbolic 64-bit acked indexes, some ids unknown to the indexer; group commit with symbolic groups 0..3; counting oracle",
      |s| c11::committed_index(s, 4, 0, true) }
    { @nostub quorum_vote_4_0, "C11", thorough, unwind = 8,
      "JointConfig::vote_result for halves of 4 and 0 voters: symbolic ids, symbolic yes/no/missing per id; won/lost/pending oracle",
      |s| c11::vote_result(s, 4, 0) }
    { @nostub quorum_ci_4_1, "C11", thorough, unwind = 8,
      "JointConfig/MajorityConfig::committed_index for halves of 4 and 1 voters: symbolic distinct ids per half (overlap free), symbolic 64-bit acked indexes, some ids unknown to the indexer; group commit with symbolic groups 0..3; counting oracle",
      |s| c11::committed_index(s, 4, 1, true) }
    { @nostub quorum_vote_4_1, "C11", thorough, unwind = 8,
      "JointConfig::vote_result for halves of 4 and 1 voters: symbolic ids, symbolic yes/no/missing per id; won/lost/pending oracle",
      |s| c11::vote_result(s, 4, 1) }
    { @nostub quorum_ci_4_2, "C11", thorough, unwind = 8,
      "JointConfig/MajorityConfig::committed_index for halves of 4 and 2 voters: symbolic distinct ids per half (overlap free), symbolic 64-bit acked indexes, some ids unknown to the indexer; group commit with symbolic groups 0..3; counting oracle",
      |s| c11::committed_index(s, 4, 2, true) }
    { @nostub quorum_vote_4_2, "C11", thorough, unwind = 8,
      "JointConfig::vote_result for halves of 4 and 2 voters: symbolic ids, symbolic yes/no/missing per id; won/lost/pending oracle",
      |s| c11::vote_result(s, 4, 2) }
    { @nostub quorum_ci_4_3, "C11", thorough, unwind = 8,
      "JointConfig/MajorityConfig::committed_index for halves of 4 and 3 voters: symbolic distinct ids per half (overlap free), symbolic 64-bit acked indexes, some ids unknown to the indexer; group commit with symbolic groups 0..3; counting oracle",
      |s| c11::committed_index(s, 4, 3, true) }
    { @nostub quorum_vote_4_3, "C11", thorough, unwind = 8,
      "JointConfig::vote_result for halves of 4 and 3 voters: symbolic ids, symbolic yes/no/missing per id; won/lost/pending oracle",
      |s| c11::vote_result(s, 4, 3) }
    { @nostub quorum_ci_4_4, "C11", thorough, unwind = 8,
      "JointConfig/MajorityConfig::committed_index for halves of 4 and 4 voters: symbolic distinct ids per half (overlap free), symbolic 64-bit acked indexes, some ids unknown to the indexer; group commit with symbolic groups 0..3; counting oracle",
      |s| c11::committed_index(s, 4, 4, true) }
    { @nostub quorum_vote_4_4, "C11", thorough, unwind = 8,
      "JointConfig::vote_result for halves of 4 and 4 voters: symbolic ids, symbolic yes/no/missing per id; won/lost/pending oracle",
      |s| c11::vote_result(s, 4, 4) }
    { @nostub quorum_ci_5_0, "C11", thorough, unwind = 8,
      "JointConfig/MajorityConfig::committed_index for halves of 5 and 0 voters: symbolic distinct ids per half (overlap free), symbolic 64-bit acked indexes, some ids unknown to the indexer; group commit with symbolic groups 0..3; counting oracle",
      |s| c11::committed_index(s, 5, 0, true) }
    { @nostub quorum_vote_5_0, "C11", quick, unwind = 8,
      "JointConfig::vote_result for halves of 5 and 0 voters: symbolic ids, symbolic yes/no/missing per id; won/lost/pending oracle",
      |s| c11::vote_result(s, 5, 0) }
    { @nostub quorum_ci_5_1, "C11", thorough, unwind = 8,
      "JointConfig/MajorityConfig::committed_index for halves of 5 and 1 voters: symbolic distinct ids per half (overlap free), symbolic 64-bit acked indexes, some ids unknown to the indexer; group commit with symbolic groups 0..3; counting oracle",
      |s| c11::committed_index(s, 5, 1, true) }
    { @nostub quorum_vote_5_1, "C11", thorough, unwind = 8,
      "JointConfig::vote_result for halves of 5 and 1 voters: symbolic ids, symbolic yes/no/missing per id; won/lost/pending oracle",
      |s| c11::vote_result(s, 5, 1) }
    { @nostub quorum_ci_5_2, "C11", thorough, unwind = 8,
      "JointConfig/MajorityConfig::committed_index for halves of 5 and 2 voters: symbolic distinct ids per half (overlap free), symbolic 64-bit acked indexes, some ids unknown to the indexer; group commit with symbolic groups 0..3; counting oracle",
      |s| c11::committed_index(s, 5, 2, true) }
    { @nostub quorum_vote_5_2, "C11", thorough, unwind = 8,
      "JointConfig::vote_result for halves of 5 and 2 voters: symbolic ids, symbolic yes/no/missing per id; won/lost/pending oracle",
      |s| c11::vote_result(s, 5, 2) }
    { @nostub quorum_ci_5_3, "C11", thorough, unwind = 8,
      "JointConfig/MajorityConfig::committed_index for halves of 5 and 3 voters: symbolic distinct ids per half (overlap free), symbolic 64-bit acked indexes, some ids unknown to the indexer; group commit with symbolic groups 0..3; counting oracle",
      |s| c11::committed_index(s, 5, 3, true) }
    { @nostub quorum_vote_5_3, "C11", thorough, unwind = 8,
      "JointConfig::vote_result for halves of 5 and 3 voters: symbolic ids, symbolic yes/no/missing per id; won/lost/pending oracle",
      |s| c11::vote_result(s, 5, 3) }
    { @nostub quorum_ci_5_4, "C11", thorough, unwind = 12,
      "JointConfig/MajorityConfig::committed_index for halves of 5 and 4 voters: symbolic distinct ids per half (overlap free), symbolic 64-bit acked indexes, some ids unknown to the indexer; group commit with symbolic groups 0..3; counting oracle",
      |s| c11::committed_index(s, 5, 4, true) }
    { @nostub quorum_vote_5_4, "C11", thorough, unwind = 12,
      "JointConfig::vote_result for halves of 5 and 4 voters: symbolic ids, symbolic yes/no/missing per id; won/lost/pending oracle",
      |s| c11::vote_result(s, 5, 4) }
    { @nostub quorum_ci_5_5, "C11", thorough, unwind = 12,
      "JointConfig/MajorityConfig::committed_index for halves of 5 and 5 voters: symbolic distinct ids per half (overlap free), symbolic 64-bit acked indexes, some ids unknown to the indexer; group commit with symbolic groups 0..3; counting oracle",
      |s| c11::committed_index(s, 5, 5, true) }
    { @nostub quorum_vote_5_5, "C11", thorough, unwind = 12,
      "JointConfig::vote_result for halves of 5 and 5 voters: symbolic ids, symbolic yes/no/missing per id; won/lost/pending oracle",
      |s| c11::vote_result(s, 5, 5) }
    { @nostub quorum_ci_8_0_cap9, "C11,C04", quick, unwind = 20,
      "committed_index for a single set of 8 voters with ids 1..=8 (the heap-allocated path for more than 7 voters; built with the 9-slot container shim): symbolic acked indexes below 2^12, some ids unknown to the indexer, counting oracle (plain quorum commit)",
      |s| c11::committed_index_concrete_ids(s, 8, 0) }
    { @nostub quorum_ci_8_0_symids_cap9, "C11", thorough, unwind = 11,
      "same with symbolic ids",
      |s| c11::committed_index(s, 8, 0, false) }
    { @nostub quorum_ci_9_2_cap9, "C11", thorough, unwind = 12,
      "committed_index for a joint configuration of 9 and 2 voters (9-slot shim)",
      |s| c11::committed_index(s, 9, 2, false) }
    { @nostub quorum_vote_8_0_cap9, "C11", thorough, unwind = 11,
      "vote_result for 8 voters (9-slot shim)",
      |s| c11::vote_result(s, 8, 0) }
    { @nostub quorum_tracker_simple, "C11", quick, unwind = 8,
      "ProgressTracker::{maximal_committed_index (real), tally_votes, vote_result, quorum_recently_active} on voters {1,2,3} + untracked-voter 4: symbolic matched / votes / activity",
      |s| c11::tracker(s, &[1, 2, 3], &[]) }
    { @nostub quorum_tracker_joint, "C11,C12", quick, unwind = 8,
      "same in the joint configuration {1,2,3}&&{2,3,4}",
      |s| c11::tracker(s, &[1, 2, 3], &[2, 3, 4]) }
    { @nostub quorum_tracker_joint_5_2, "C11,C12", quick, unwind = 8,
      "same in the asymmetric joint configuration {1,2,3,4,5}&&{2,3}",
      |s| c11::tracker(s, &[1, 2, 3, 4, 5], &[2, 3]) }
    { @nostub quorum_tracker_2, "C11", quick, unwind = 8,
      "same for the two-voter configuration {1,2} (even size: a single rejection decides)",
      |s| c11::tracker(s, &[1, 2], &[]) }
    { @nostub quorum_tracker_gc_simple, "C11", quick, unwind = 8,
      "ProgressTracker::maximal_committed_index (real) with group commit enabled on voters {1,2,3}: symbolic matched and commit groups 1..=3 -> min(quorum index, largest index replicated into two groups)",
      |s| c11::tracker_gc(s, &[1, 2, 3], &[]) }
    { @nostub quorum_tracker_gc_joint, "C11,C12", quick, unwind = 8,
      "same in the joint configuration {1,2,3}&&{3,4,5}: group commit applies to each half, the result is the minimum",
      |s| c11::tracker_gc(s, &[1, 2, 3], &[3, 4, 5]) }
    // ---------------- C12 configuration-change algebra ----------------
    { cc_simple_s3l_addnode_0, "C12", quick, unwind = 8,
      "Changer::simple on voters {1,2,3} + learner 4: AddNode(0); reference-semantics equality, invariants (voters/learners disjoint, staged learners inside outgoing, >=1 voter, progress = members), <=1 voter changed for simple, quorum overlap old/new with two symbolic quorums, reject leaves everything untouched",
      |s| c12::change(s, &S3L, 0, &[0], &[&[0]]) }
    { cc_simple_s3l_addnode_1, "C12", thorough, unwind = 8,
      "Changer::simple on voters {1,2,3} + learner 4: AddNode(1); reference-semantics equality, invariants (voters/learners disjoint, staged learners inside outgoing, >=1 voter, progress = members), <=1 voter changed for simple, quorum overlap old/new with two symbolic quorums, reject leaves everything untouched",
      |s| c12::change(s, &S3L, 0, &[0], &[&[1]]) }
    { cc_simple_s3l_addnode_3, "C12", quick, unwind = 8,
      "Changer::simple on voters {1,2,3} + learner 4: AddNode(3); reference-semantics equality, invariants (voters/learners disjoint, staged learners inside outgoing, >=1 voter, progress = members), <=1 voter changed for simple, quorum overlap old/new with two symbolic quorums, reject leaves everything untouched",
      |s| c12::change(s, &S3L, 0, &[0], &[&[3]]) }
    { cc_simple_s3l_addnode_4, "C12", quick, unwind = 8,
      "Changer::simple on voters {1,2,3} + learner 4: AddNode(4); reference-semantics equality, invariants (voters/learners disjoint, staged learners inside outgoing, >=1 voter, progress = members), <=1 voter changed for simple, quorum overlap old/new with two symbolic quorums, reject leaves everything untouched",
      |s| c12::change(s, &S3L, 0, &[0], &[&[4]]) }
    { cc_simple_s3l_addnode_5, "C12", quick, unwind = 8,
      "Changer::simple on voters {1,2,3} + learner 4: AddNode(5); reference-semantics equality, invariants (voters/learners disjoint, staged learners inside outgoing, >=1 voter, progress = members), <=1 voter changed for simple, quorum overlap old/new with two symbolic quorums, reject leaves everything untouched",
      |s| c12::change(s, &S3L, 0, &[0], &[&[5]]) }
    { cc_simple_s3l_removenode_0, "C12", quick, unwind = 8,
      "Changer::simple on voters {1,2,3} + learner 4: RemoveNode(0); reference-semantics equality, invariants (voters/learners disjoint, staged learners inside outgoing, >=1 voter, progress = members), <=1 voter changed for simple, quorum overlap old/new with two symbolic quorums, reject leaves everything untouched",
      |s| c12::change(s, &S3L, 0, &[1], &[&[0]]) }
    { cc_simple_s3l_removenode_1, "C12", thorough, unwind = 8,
      "Changer::simple on voters {1,2,3} + learner 4: RemoveNode(1); reference-semantics equality, invariants (voters/learners disjoint, staged learners inside outgoing, >=1 voter, progress = members), <=1 voter changed for simple, quorum overlap old/new with two symbolic quorums, reject leaves everything untouched",
      |s| c12::change(s, &S3L, 0, &[1], &[&[1]]) }
    { cc_simple_s3l_removenode_3, "C12", quick, unwind = 8,
      "Changer::simple on voters {1,2,3} + learner 4: RemoveNode(3); reference-semantics equality, invariants (voters/learners disjoint, staged learners inside outgoing, >=1 voter, progress = members), <=1 voter changed for simple, quorum overlap old/new with two symbolic quorums, reject leaves everything untouched",
      |s| c12::change(s, &S3L, 0, &[1], &[&[3]]) }
    { cc_simple_s3l_removenode_4, "C12", quick, unwind = 8,
      "Changer::simple on voters {1,2,3} + learner 4: RemoveNode(4); reference-semantics equality, invariants (voters/learners disjoint, staged learners inside outgoing, >=1 voter, progress = members), <=1 voter changed for simple, quorum overlap old/new with two symbolic quorums, reject leaves everything untouched",
      |s| c12::change(s, &S3L, 0, &[1], &[&[4]]) }
    { cc_simple_s3l_removenode_5, "C12", quick, unwind = 8,
      "Changer::simple on voters {1,2,3} + learner 4: RemoveNode(5); reference-semantics equality, invariants (voters/learners disjoint, staged learners inside outgoing, >=1 voter, progress = members), <=1 voter changed for simple, quorum overlap old/new with two symbolic quorums, reject leaves everything untouched",
      |s| c12::change(s, &S3L, 0, &[1], &[&[5]]) }
    { cc_simple_s3l_addlearnernode_0, "C12", quick, unwind = 8,
      "Changer::simple on voters {1,2,3} + learner 4: AddLearnerNode(0); reference-semantics equality, invariants (voters/learners disjoint, staged learners inside outgoing, >=1 voter, progress = members), <=1 voter changed for simple, quorum overlap old/new with two symbolic quorums, reject leaves everything untouched",
      |s| c12::change(s, &S3L, 0, &[2], &[&[0]]) }
    { cc_simple_s3l_addlearnernode_1, "C12", thorough, unwind = 8,
      "Changer::simple on voters {1,2,3} + learner 4: AddLearnerNode(1); reference-semantics equality, invariants (voters/learners disjoint, staged learners inside outgoing, >=1 voter, progress = members), <=1 voter changed for simple, quorum overlap old/new with two symbolic quorums, reject leaves everything untouched",
      |s| c12::change(s, &S3L, 0, &[2], &[&[1]]) }
    { cc_simple_s3l_addlearnernode_3, "C12", quick, unwind = 8,
      "Changer::simple on voters {1,2,3} + learner 4: AddLearnerNode(3); reference-semantics equality, invariants (voters/learners disjoint, staged learners inside outgoing, >=1 voter, progress = members), <=1 voter changed for simple, quorum overlap old/new with two symbolic quorums, reject leaves everything untouched",
      |s| c12::change(s, &S3L, 0, &[2], &[&[3]]) }
    { cc_simple_s3l_addlearnernode_4, "C12", quick, unwind = 8,
      "Changer::simple on voters {1,2,3} + learner 4: AddLearnerNode(4); reference-semantics equality, invariants (voters/learners disjoint, staged learners inside outgoing, >=1 voter, progress = members), <=1 voter changed for simple, quorum overlap old/new with two symbolic quorums, reject leaves everything untouched",
      |s| c12::change(s, &S3L, 0, &[2], &[&[4]]) }
    { cc_simple_s3l_addlearnernode_5, "C12", quick, unwind = 8,
      "Changer::simple on voters {1,2,3} + learner 4: AddLearnerNode(5); reference-semantics equality, invariants (voters/learners disjoint, staged learners inside outgoing, >=1 voter, progress = members), <=1 voter changed for simple, quorum overlap old/new with two symbolic quorums, reject leaves everything untouched",
      |s| c12::change(s, &S3L, 0, &[2], &[&[5]]) }
    { cc_simple_s3_addnode_0, "C12", thorough, unwind = 8,
      "Changer::simple on voters {1,2,3}: AddNode(0); reference-semantics equality, invariants (voters/learners disjoint, staged learners inside outgoing, >=1 voter, progress = members), <=1 voter changed for simple, quorum overlap old/new with two symbolic quorums, reject leaves everything untouched",
      |s| c12::change(s, &S3, 0, &[0], &[&[0]]) }
    { cc_simple_s3_addnode_1, "C12", thorough, unwind = 8,
      "Changer::simple on voters {1,2,3}: AddNode(1); reference-semantics equality, invariants (voters/learners disjoint, staged learners inside outgoing, >=1 voter, progress = members), <=1 voter changed for simple, quorum overlap old/new with two symbolic quorums, reject leaves everything untouched",
      |s| c12::change(s, &S3, 0, &[0], &[&[1]]) }
    { cc_simple_s3_addnode_3, "C12", thorough, unwind = 8,
      "Changer::simple on voters {1,2,3}: AddNode(3); reference-semantics equality, invariants (voters/learners disjoint, staged learners inside outgoing, >=1 voter, progress = members), <=1 voter changed for simple, quorum overlap old/new with two symbolic quorums, reject leaves everything untouched",
      |s| c12::change(s, &S3, 0, &[0], &[&[3]]) }
    { cc_simple_s3_addnode_4, "C12", thorough, unwind = 8,
      "Changer::simple on voters {1,2,3}: AddNode(4); reference-semantics equality, invariants (voters/learners disjoint, staged learners inside outgoing, >=1 voter, progress = members), <=1 voter changed for simple, quorum overlap old/new with two symbolic quorums, reject leaves everything untouched",
      |s| c12::change(s, &S3, 0, &[0], &[&[4]]) }
    { cc_simple_s3_addnode_5, "C12", thorough, unwind = 8,
      "Changer::simple on voters {1,2,3}: AddNode(5); reference-semantics equality, invariants (voters/learners disjoint, staged learners inside outgoing, >=1 voter, progress = members), <=1 voter changed for simple, quorum overlap old/new with two symbolic quorums, reject leaves everything untouched",
      |s| c12::change(s, &S3, 0, &[0], &[&[5]]) }
    { cc_simple_s3_removenode_0, "C12", thorough, unwind = 8,
      "Changer::simple on voters {1,2,3}: RemoveNode(0); reference-semantics equality, invariants (voters/learners disjoint, staged learners inside outgoing, >=1 voter, progress = members), <=1 voter changed for simple, quorum overlap old/new with two symbolic quorums, reject leaves everything untouched",
      |s| c12::change(s, &S3, 0, &[1], &[&[0]]) }
    { cc_simple_s3_removenode_1, "C12", thorough, unwind = 8,
      "Changer::simple on voters {1,2,3}: RemoveNode(1); reference-semantics equality, invariants (voters/learners disjoint, staged learners inside outgoing, >=1 voter, progress = members), <=1 voter changed for simple, quorum overlap old/new with two symbolic quorums, reject leaves everything untouched",
      |s| c12::change(s, &S3, 0, &[1], &[&[1]]) }
    { cc_simple_s3_removenode_3, "C12", thorough, unwind = 8,
      "Changer::simple on voters {1,2,3}: RemoveNode(3); reference-semantics equality, invariants (voters/learners disjoint, staged learners inside outgoing, >=1 voter, progress = members), <=1 voter changed for simple, quorum overlap old/new with two symbolic quorums, reject leaves everything untouched",
      |s| c12::change(s, &S3, 0, &[1], &[&[3]]) }
    { cc_simple_s3_removenode_4, "C12", thorough, unwind = 8,
      "Changer::simple on voters {1,2,3}: RemoveNode(4); reference-semantics equality, invariants (voters/learners disjoint, staged learners inside outgoing, >=1 voter, progress = members), <=1 voter changed for simple, quorum overlap old/new with two symbolic quorums, reject leaves everything untouched",
      |s| c12::change(s, &S3, 0, &[1], &[&[4]]) }
    { cc_simple_s3_removenode_5, "C12", thorough, unwind = 8,
      "Changer::simple on voters {1,2,3}: RemoveNode(5); reference-semantics equality, invariants (voters/learners disjoint, staged learners inside outgoing, >=1 voter, progress = members), <=1 voter changed for simple, quorum overlap old/new with two symbolic quorums, reject leaves everything untouched",
      |s| c12::change(s, &S3, 0, &[1], &[&[5]]) }
    { cc_simple_s3_addlearnernode_0, "C12", thorough, unwind = 8,
      "Changer::simple on voters {1,2,3}: AddLearnerNode(0); reference-semantics equality, invariants (voters/learners disjoint, staged learners inside outgoing, >=1 voter, progress = members), <=1 voter changed for simple, quorum overlap old/new with two symbolic quorums, reject leaves everything untouched",
      |s| c12::change(s, &S3, 0, &[2], &[&[0]]) }
    { cc_simple_s3_addlearnernode_1, "C12", thorough, unwind = 8,
      "Changer::simple on voters {1,2,3}: AddLearnerNode(1); reference-semantics equality, invariants (voters/learners disjoint, staged learners inside outgoing, >=1 voter, progress = members), <=1 voter changed for simple, quorum overlap old/new with two symbolic quorums, reject leaves everything untouched",
      |s| c12::change(s, &S3, 0, &[2], &[&[1]]) }
    { cc_simple_s3_addlearnernode_3, "C12", thorough, unwind = 8,
      "Changer::simple on voters {1,2,3}: AddLearnerNode(3); reference-semantics equality, invariants (voters/learners disjoint, staged learners inside outgoing, >=1 voter, progress = members), <=1 voter changed for simple, quorum overlap old/new with two symbolic quorums, reject leaves everything untouched",
      |s| c12::change(s, &S3, 0, &[2], &[&[3]]) }
    { cc_simple_s3_addlearnernode_4, "C12", thorough, unwind = 8,
      "Changer::simple on voters {1,2,3}: AddLearnerNode(4); reference-semantics equality, invariants (voters/learners disjoint, staged learners inside outgoing, >=1 voter, progress = members), <=1 voter changed for simple, quorum overlap old/new with two symbolic quorums, reject leaves everything untouched",
      |s| c12::change(s, &S3, 0, &[2], &[&[4]]) }
    { cc_simple_s3_addlearnernode_5, "C12", thorough, unwind = 8,
      "Changer::simple on voters {1,2,3}: AddLearnerNode(5); reference-semantics equality, invariants (voters/learners disjoint, staged learners inside outgoing, >=1 voter, progress = members), <=1 voter changed for simple, quorum overlap old/new with two symbolic quorums, reject leaves everything untouched",
      |s| c12::change(s, &S3, 0, &[2], &[&[5]]) }
    { cc_simple_s1_addnode_0, "C12", thorough, unwind = 8,
      "Changer::simple on single voter {1}: AddNode(0); reference-semantics equality, invariants (voters/learners disjoint, staged learners inside outgoing, >=1 voter, progress = members), <=1 voter changed for simple, quorum overlap old/new with two symbolic quorums, reject leaves everything untouched",
      |s| c12::change(s, &S1, 0, &[0], &[&[0]]) }
    { cc_simple_s1_addnode_1, "C12", thorough, unwind = 8,
      "Changer::simple on single voter {1}: AddNode(1); reference-semantics equality, invariants (voters/learners disjoint, staged learners inside outgoing, >=1 voter, progress = members), <=1 voter changed for simple, quorum overlap old/new with two symbolic quorums, reject leaves everything untouched",
      |s| c12::change(s, &S1, 0, &[0], &[&[1]]) }
    { cc_simple_s1_addnode_3, "C12", thorough, unwind = 8,
      "Changer::simple on single voter {1}: AddNode(3); reference-semantics equality, invariants (voters/learners disjoint, staged learners inside outgoing, >=1 voter, progress = members), <=1 voter changed for simple, quorum overlap old/new with two symbolic quorums, reject leaves everything untouched",
      |s| c12::change(s, &S1, 0, &[0], &[&[3]]) }
    { cc_simple_s1_addnode_4, "C12", thorough, unwind = 8,
      "Changer::simple on single voter {1}: AddNode(4); reference-semantics equality, invariants (voters/learners disjoint, staged learners inside outgoing, >=1 voter, progress = members), <=1 voter changed for simple, quorum overlap old/new with two symbolic quorums, reject leaves everything untouched",
      |s| c12::change(s, &S1, 0, &[0], &[&[4]]) }
    { cc_simple_s1_addnode_5, "C12", thorough, unwind = 8,
      "Changer::simple on single voter {1}: AddNode(5); reference-semantics equality, invariants (voters/learners disjoint, staged learners inside outgoing, >=1 voter, progress = members), <=1 voter changed for simple, quorum overlap old/new with two symbolic quorums, reject leaves everything untouched",
      |s| c12::change(s, &S1, 0, &[0], &[&[5]]) }
    { cc_simple_s1_removenode_0, "C12", thorough, unwind = 8,
      "Changer::simple on single voter {1}: RemoveNode(0); reference-semantics equality, invariants (voters/learners disjoint, staged learners inside outgoing, >=1 voter, progress = members), <=1 voter changed for simple, quorum overlap old/new with two symbolic quorums, reject leaves everything untouched",
      |s| c12::change(s, &S1, 0, &[1], &[&[0]]) }
    { cc_simple_s1_removenode_1, "C12", thorough, unwind = 8,
      "Changer::simple on single voter {1}: RemoveNode(1); reference-semantics equality, invariants (voters/learners disjoint, staged learners inside outgoing, >=1 voter, progress = members), <=1 voter changed for simple, quorum overlap old/new with two symbolic quorums, reject leaves everything untouched",
      |s| c12::change(s, &S1, 0, &[1], &[&[1]]) }
    { cc_simple_s1_removenode_3, "C12", thorough, unwind = 8,
      "Changer::simple on single voter {1}: RemoveNode(3); reference-semantics equality, invariants (voters/learners disjoint, staged learners inside outgoing, >=1 voter, progress = members), <=1 voter changed for simple, quorum overlap old/new with two symbolic quorums, reject leaves everything untouched",
      |s| c12::change(s, &S1, 0, &[1], &[&[3]]) }
    { cc_simple_s1_removenode_4, "C12", thorough, unwind = 8,
      "Changer::simple on single voter {1}: RemoveNode(4); reference-semantics equality, invariants (voters/learners disjoint, staged learners inside outgoing, >=1 voter, progress = members), <=1 voter changed for simple, quorum overlap old/new with two symbolic quorums, reject leaves everything untouched",
      |s| c12::change(s, &S1, 0, &[1], &[&[4]]) }
    { cc_simple_s1_removenode_5, "C12", thorough, unwind = 8,
      "Changer::simple on single voter {1}: RemoveNode(5); reference-semantics equality, invariants (voters/learners disjoint, staged learners inside outgoing, >=1 voter, progress = members), <=1 voter changed for simple, quorum overlap old/new with two symbolic quorums, reject leaves everything untouched",
      |s| c12::change(s, &S1, 0, &[1], &[&[5]]) }
    { cc_simple_s1_addlearnernode_0, "C12", thorough, unwind = 8,
      "Changer::simple on single voter {1}: AddLearnerNode(0); reference-semantics equality, invariants (voters/learners disjoint, staged learners inside outgoing, >=1 voter, progress = members), <=1 voter changed for simple, quorum overlap old/new with two symbolic quorums, reject leaves everything untouched",
      |s| c12::change(s, &S1, 0, &[2], &[&[0]]) }
    { cc_simple_s1_addlearnernode_1, "C12", thorough, unwind = 8,
      "Changer::simple on single voter {1}: AddLearnerNode(1); reference-semantics equality, invariants (voters/learners disjoint, staged learners inside outgoing, >=1 voter, progress = members), <=1 voter changed for simple, quorum overlap old/new with two symbolic quorums, reject leaves everything untouched",
      |s| c12::change(s, &S1, 0, &[2], &[&[1]]) }
    { cc_simple_s1_addlearnernode_3, "C12", thorough, unwind = 8,
      "Changer::simple on single voter {1}: AddLearnerNode(3); reference-semantics equality, invariants (voters/learners disjoint, staged learners inside outgoing, >=1 voter, progress = members), <=1 voter changed for simple, quorum overlap old/new with two symbolic quorums, reject leaves everything untouched",
      |s| c12::change(s, &S1, 0, &[2], &[&[3]]) }
    { cc_simple_s1_addlearnernode_4, "C12", thorough, unwind = 8,
      "Changer::simple on single voter {1}: AddLearnerNode(4); reference-semantics equality, invariants (voters/learners disjoint, staged learners inside outgoing, >=1 voter, progress = members), <=1 voter changed for simple, quorum overlap old/new with two symbolic quorums, reject leaves everything untouched",
      |s| c12::change(s, &S1, 0, &[2], &[&[4]]) }
    { cc_simple_s1_addlearnernode_5, "C12", thorough, unwind = 8,
      "Changer::simple on single voter {1}: AddLearnerNode(5); reference-semantics equality, invariants (voters/learners disjoint, staged learners inside outgoing, >=1 voter, progress = members), <=1 voter changed for simple, quorum overlap old/new with two symbolic quorums, reject leaves everything untouched",
      |s| c12::change(s, &S1, 0, &[2], &[&[5]]) }
    { cc_simple_two_learners_23, "C12", quick, unwind = 8,
      "Changer::simple on S3: ['AddLearnerNode', 'AddLearnerNode'] with ids [2, 3] (demoting two voters at once must be rejected); auto_leave symbolic; reference-semantics equality, invariants (voters/learners disjoint, staged learners inside outgoing, >=1 voter, progress = members), <=1 voter changed for simple, quorum overlap old/new with two symbolic quorums, reject leaves everything untouched",
      |s| c12::change(s, &S3, 0, &[2, 2], &[&[2, 3]]) }
    { cc_simple_two_learners_22, "C12", thorough, unwind = 8,
      "Changer::simple on S3: ['AddLearnerNode', 'AddLearnerNode'] with ids [2, 2] (demoting two voters at once must be rejected); auto_leave symbolic; reference-semantics equality, invariants (voters/learners disjoint, staged learners inside outgoing, >=1 voter, progress = members), <=1 voter changed for simple, quorum overlap old/new with two symbolic quorums, reject leaves everything untouched",
      |s| c12::change(s, &S3, 0, &[2, 2], &[&[2, 2]]) }
    { cc_simple_two_learners_45, "C12", thorough, unwind = 8,
      "Changer::simple on S3: ['AddLearnerNode', 'AddLearnerNode'] with ids [4, 5] (demoting two voters at once must be rejected); auto_leave symbolic; reference-semantics equality, invariants (voters/learners disjoint, staged learners inside outgoing, >=1 voter, progress = members), <=1 voter changed for simple, quorum overlap old/new with two symbolic quorums, reject leaves everything untouched",
      |s| c12::change(s, &S3, 0, &[2, 2], &[&[4, 5]]) }
    { cc_simple_two_learners_02, "C12", thorough, unwind = 8,
      "Changer::simple on S3: ['AddLearnerNode', 'AddLearnerNode'] with ids [0, 2] (demoting two voters at once must be rejected); auto_leave symbolic; reference-semantics equality, invariants (voters/learners disjoint, staged learners inside outgoing, >=1 voter, progress = members), <=1 voter changed for simple, quorum overlap old/new with two symbolic quorums, reject leaves everything untouched",
      |s| c12::change(s, &S3, 0, &[2, 2], &[&[0, 2]]) }
    { cc_simple_add_remove_44, "C12", quick, unwind = 8,
      "Changer::simple on S3L: ['AddNode', 'RemoveNode'] with ids [4, 4] (add and remove); auto_leave symbolic; reference-semantics equality, invariants (voters/learners disjoint, staged learners inside outgoing, >=1 voter, progress = members), <=1 voter changed for simple, quorum overlap old/new with two symbolic quorums, reject leaves everything untouched",
      |s| c12::change(s, &S3L, 0, &[0, 1], &[&[4, 4]]) }
    { cc_simple_add_remove_53, "C12", thorough, unwind = 8,
      "Changer::simple on S3L: ['AddNode', 'RemoveNode'] with ids [5, 3] (add and remove); auto_leave symbolic; reference-semantics equality, invariants (voters/learners disjoint, staged learners inside outgoing, >=1 voter, progress = members), <=1 voter changed for simple, quorum overlap old/new with two symbolic quorums, reject leaves everything untouched",
      |s| c12::change(s, &S3L, 0, &[0, 1], &[&[5, 3]]) }
    { cc_simple_add_remove_43, "C12", thorough, unwind = 8,
      "Changer::simple on S3L: ['AddNode', 'RemoveNode'] with ids [4, 3] (add and remove); auto_leave symbolic; reference-semantics equality, invariants (voters/learners disjoint, staged learners inside outgoing, >=1 voter, progress = members), <=1 voter changed for simple, quorum overlap old/new with two symbolic quorums, reject leaves everything untouched",
      |s| c12::change(s, &S3L, 0, &[0, 1], &[&[4, 3]]) }
    { cc_simple_add_remove_55, "C12", thorough, unwind = 8,
      "Changer::simple on S3L: ['AddNode', 'RemoveNode'] with ids [5, 5] (add and remove); auto_leave symbolic; reference-semantics equality, invariants (voters/learners disjoint, staged learners inside outgoing, >=1 voter, progress = members), <=1 voter changed for simple, quorum overlap old/new with two symbolic quorums, reject leaves everything untouched",
      |s| c12::change(s, &S3L, 0, &[0, 1], &[&[5, 5]]) }
    { cc_simple_add_remove_22, "C12", thorough, unwind = 8,
      "Changer::simple on S3L: ['AddNode', 'RemoveNode'] with ids [2, 2] (add and remove); auto_leave symbolic; reference-semantics equality, invariants (voters/learners disjoint, staged learners inside outgoing, >=1 voter, progress = members), <=1 voter changed for simple, quorum overlap old/new with two symbolic quorums, reject leaves everything untouched",
      |s| c12::change(s, &S3L, 0, &[0, 1], &[&[2, 2]]) }
    { cc_enter_add_remove_53, "C12", quick, unwind = 8,
      "Changer::enter_joint on S3L: ['AddNode', 'RemoveNode'] with ids [5, 3] (enter joint: add and remove); auto_leave symbolic; reference-semantics equality, invariants (voters/learners disjoint, staged learners inside outgoing, >=1 voter, progress = members), <=1 voter changed for simple, quorum overlap old/new with two symbolic quorums, reject leaves everything untouched",
      |s| c12::change(s, &S3L, 1, &[0, 1], &[&[5, 3]]) }
    { cc_enter_add_remove_41, "C12", thorough, unwind = 8,
      "Changer::enter_joint on S3L: ['AddNode', 'RemoveNode'] with ids [4, 1] (enter joint: add and remove); auto_leave symbolic; reference-semantics equality, invariants (voters/learners disjoint, staged learners inside outgoing, >=1 voter, progress = members), <=1 voter changed for simple, quorum overlap old/new with two symbolic quorums, reject leaves everything untouched",
      |s| c12::change(s, &S3L, 1, &[0, 1], &[&[4, 1]]) }
    { cc_enter_add_remove_44, "C12", thorough, unwind = 8,
      "Changer::enter_joint on S3L: ['AddNode', 'RemoveNode'] with ids [4, 4] (enter joint: add and remove); auto_leave symbolic; reference-semantics equality, invariants (voters/learners disjoint, staged learners inside outgoing, >=1 voter, progress = members), <=1 voter changed for simple, quorum overlap old/new with two symbolic quorums, reject leaves everything untouched",
      |s| c12::change(s, &S3L, 1, &[0, 1], &[&[4, 4]]) }
    { cc_enter_add_remove_22, "C12", thorough, unwind = 8,
      "Changer::enter_joint on S3L: ['AddNode', 'RemoveNode'] with ids [2, 2] (enter joint: add and remove); auto_leave symbolic; reference-semantics equality, invariants (voters/learners disjoint, staged learners inside outgoing, >=1 voter, progress = members), <=1 voter changed for simple, quorum overlap old/new with two symbolic quorums, reject leaves everything untouched",
      |s| c12::change(s, &S3L, 1, &[0, 1], &[&[2, 2]]) }
    { cc_enter_add_remove_50, "C12", thorough, unwind = 8,
      "Changer::enter_joint on S3L: ['AddNode', 'RemoveNode'] with ids [5, 0] (enter joint: add and remove); auto_leave symbolic; reference-semantics equality, invariants (voters/learners disjoint, staged learners inside outgoing, >=1 voter, progress = members), <=1 voter changed for simple, quorum overlap old/new with two symbolic quorums, reject leaves everything untouched",
      |s| c12::change(s, &S3L, 1, &[0, 1], &[&[5, 0]]) }
    { cc_enter_learner_add_33, "C12", quick, unwind = 8,
      "Changer::enter_joint on S3L: ['AddLearnerNode', 'AddNode'] with ids [3, 3] (enter joint: demote then (re-)promote); auto_leave symbolic; reference-semantics equality, invariants (voters/learners disjoint, staged learners inside outgoing, >=1 voter, progress = members), <=1 voter changed for simple, quorum overlap old/new with two symbolic quorums, reject leaves everything untouched",
      |s| c12::change(s, &S3L, 1, &[2, 0], &[&[3, 3]]) }
    { cc_enter_learner_add_35, "C12", thorough, unwind = 8,
      "Changer::enter_joint on S3L: ['AddLearnerNode', 'AddNode'] with ids [3, 5] (enter joint: demote then (re-)promote); auto_leave symbolic; reference-semantics equality, invariants (voters/learners disjoint, staged learners inside outgoing, >=1 voter, progress = members), <=1 voter changed for simple, quorum overlap old/new with two symbolic quorums, reject leaves everything untouched",
      |s| c12::change(s, &S3L, 1, &[2, 0], &[&[3, 5]]) }
    { cc_enter_learner_add_55, "C12", thorough, unwind = 8,
      "Changer::enter_joint on S3L: ['AddLearnerNode', 'AddNode'] with ids [5, 5] (enter joint: demote then (re-)promote); auto_leave symbolic; reference-semantics equality, invariants (voters/learners disjoint, staged learners inside outgoing, >=1 voter, progress = members), <=1 voter changed for simple, quorum overlap old/new with two symbolic quorums, reject leaves everything untouched",
      |s| c12::change(s, &S3L, 1, &[2, 0], &[&[5, 5]]) }
    { cc_enter_learner_add_44, "C12", thorough, unwind = 8,
      "Changer::enter_joint on S3L: ['AddLearnerNode', 'AddNode'] with ids [4, 4] (enter joint: demote then (re-)promote); auto_leave symbolic; reference-semantics equality, invariants (voters/learners disjoint, staged learners inside outgoing, >=1 voter, progress = members), <=1 voter changed for simple, quorum overlap old/new with two symbolic quorums, reject leaves everything untouched",
      |s| c12::change(s, &S3L, 1, &[2, 0], &[&[4, 4]]) }
    { cc_enter_learner_add_24, "C12", thorough, unwind = 8,
      "Changer::enter_joint on S3L: ['AddLearnerNode', 'AddNode'] with ids [2, 4] (enter joint: demote then (re-)promote); auto_leave symbolic; reference-semantics equality, invariants (voters/learners disjoint, staged learners inside outgoing, >=1 voter, progress = members), <=1 voter changed for simple, quorum overlap old/new with two symbolic quorums, reject leaves everything untouched",
      |s| c12::change(s, &S3L, 1, &[2, 0], &[&[2, 4]]) }
    { cc_enter_remove_learner_33, "C12", thorough, unwind = 8,
      "Changer::enter_joint on S3L: ['RemoveNode', 'AddLearnerNode'] with ids [3, 3] (enter joint: remove then add as learner); auto_leave symbolic; reference-semantics equality, invariants (voters/learners disjoint, staged learners inside outgoing, >=1 voter, progress = members), <=1 voter changed for simple, quorum overlap old/new with two symbolic quorums, reject leaves everything untouched",
      |s| c12::change(s, &S3L, 1, &[1, 2], &[&[3, 3]]) }
    { cc_enter_remove_learner_44, "C12", thorough, unwind = 8,
      "Changer::enter_joint on S3L: ['RemoveNode', 'AddLearnerNode'] with ids [4, 4] (enter joint: remove then add as learner); auto_leave symbolic; reference-semantics equality, invariants (voters/learners disjoint, staged learners inside outgoing, >=1 voter, progress = members), <=1 voter changed for simple, quorum overlap old/new with two symbolic quorums, reject leaves everything untouched",
      |s| c12::change(s, &S3L, 1, &[1, 2], &[&[4, 4]]) }
    { cc_enter_remove_learner_12, "C12", thorough, unwind = 8,
      "Changer::enter_joint on S3L: ['RemoveNode', 'AddLearnerNode'] with ids [1, 2] (enter joint: remove then add as learner); auto_leave symbolic; reference-semantics equality, invariants (voters/learners disjoint, staged learners inside outgoing, >=1 voter, progress = members), <=1 voter changed for simple, quorum overlap old/new with two symbolic quorums, reject leaves everything untouched",
      |s| c12::change(s, &S3L, 1, &[1, 2], &[&[1, 2]]) }
    { cc_enter_remove_learner_35, "C12", thorough, unwind = 8,
      "Changer::enter_joint on S3L: ['RemoveNode', 'AddLearnerNode'] with ids [3, 5] (enter joint: remove then add as learner); auto_leave symbolic; reference-semantics equality, invariants (voters/learners disjoint, staged learners inside outgoing, >=1 voter, progress = members), <=1 voter changed for simple, quorum overlap old/new with two symbolic quorums, reject leaves everything untouched",
      |s| c12::change(s, &S3L, 1, &[1, 2], &[&[3, 5]]) }
    { cc_enter_learner_learner_23, "C12", quick, unwind = 8,
      "Changer::enter_joint on S3L: ['AddLearnerNode', 'AddLearnerNode'] with ids [2, 3] (enter joint: two demotions (staged learners)); auto_leave symbolic; reference-semantics equality, invariants (voters/learners disjoint, staged learners inside outgoing, >=1 voter, progress = members), <=1 voter changed for simple, quorum overlap old/new with two symbolic quorums, reject leaves everything untouched",
      |s| c12::change(s, &S3L, 1, &[2, 2], &[&[2, 3]]) }
    { cc_enter_learner_learner_33, "C12", thorough, unwind = 8,
      "Changer::enter_joint on S3L: ['AddLearnerNode', 'AddLearnerNode'] with ids [3, 3] (enter joint: two demotions (staged learners)); auto_leave symbolic; reference-semantics equality, invariants (voters/learners disjoint, staged learners inside outgoing, >=1 voter, progress = members), <=1 voter changed for simple, quorum overlap old/new with two symbolic quorums, reject leaves everything untouched",
      |s| c12::change(s, &S3L, 1, &[2, 2], &[&[3, 3]]) }
    { cc_enter_learner_learner_45, "C12", thorough, unwind = 8,
      "Changer::enter_joint on S3L: ['AddLearnerNode', 'AddLearnerNode'] with ids [4, 5] (enter joint: two demotions (staged learners)); auto_leave symbolic; reference-semantics equality, invariants (voters/learners disjoint, staged learners inside outgoing, >=1 voter, progress = members), <=1 voter changed for simple, quorum overlap old/new with two symbolic quorums, reject leaves everything untouched",
      |s| c12::change(s, &S3L, 1, &[2, 2], &[&[4, 5]]) }
    { cc_enter_learner_learner_14, "C12", thorough, unwind = 8,
      "Changer::enter_joint on S3L: ['AddLearnerNode', 'AddLearnerNode'] with ids [1, 4] (enter joint: two demotions (staged learners)); auto_leave symbolic; reference-semantics equality, invariants (voters/learners disjoint, staged learners inside outgoing, >=1 voter, progress = members), <=1 voter changed for simple, quorum overlap old/new with two symbolic quorums, reject leaves everything untouched",
      |s| c12::change(s, &S3L, 1, &[2, 2], &[&[1, 4]]) }
    { cc_enter_add_remove_add_555, "C12", quick, unwind = 8,
      "Changer::enter_joint on S3: ['AddNode', 'RemoveNode', 'AddNode'] with ids [5, 5, 5] (enter joint: the same untracked id added, removed and re-added in one list); auto_leave symbolic; reference-semantics equality, invariants (voters/learners disjoint, staged learners inside outgoing, >=1 voter, progress = members), <=1 voter changed for simple, quorum overlap old/new with two symbolic quorums, reject leaves everything untouched",
      |s| c12::change(s, &S3, 1, &[0, 1, 0], &[&[5, 5, 5]]) }
    { cc_enter_add_remove_add_434, "C12", thorough, unwind = 8,
      "Changer::enter_joint on S3: ['AddNode', 'RemoveNode', 'AddNode'] with ids [4, 3, 4] (enter joint: the same untracked id added, removed and re-added in one list); auto_leave symbolic; reference-semantics equality, invariants (voters/learners disjoint, staged learners inside outgoing, >=1 voter, progress = members), <=1 voter changed for simple, quorum overlap old/new with two symbolic quorums, reject leaves everything untouched",
      |s| c12::change(s, &S3, 1, &[0, 1, 0], &[&[4, 3, 4]]) }
    { cc_enter_add_remove_add_333, "C12", thorough, unwind = 8,
      "Changer::enter_joint on S3: ['AddNode', 'RemoveNode', 'AddNode'] with ids [3, 3, 3] (enter joint: the same untracked id added, removed and re-added in one list); auto_leave symbolic; reference-semantics equality, invariants (voters/learners disjoint, staged learners inside outgoing, >=1 voter, progress = members), <=1 voter changed for simple, quorum overlap old/new with two symbolic quorums, reject leaves everything untouched",
      |s| c12::change(s, &S3, 1, &[0, 1, 0], &[&[3, 3, 3]]) }
    { cc_enter_add_remove_add_445, "C12", thorough, unwind = 8,
      "Changer::enter_joint on S3: ['AddNode', 'RemoveNode', 'AddNode'] with ids [4, 4, 5] (enter joint: the same untracked id added, removed and re-added in one list); auto_leave symbolic; reference-semantics equality, invariants (voters/learners disjoint, staged learners inside outgoing, >=1 voter, progress = members), <=1 voter changed for simple, quorum overlap old/new with two symbolic quorums, reject leaves everything untouched",
      |s| c12::change(s, &S3, 1, &[0, 1, 0], &[&[4, 4, 5]]) }
    { cc_enter_learner_remove_learner_555, "C12", thorough, unwind = 8,
      "Changer::enter_joint on S3: ['AddLearnerNode', 'RemoveNode', 'AddLearnerNode'] with ids [5, 5, 5] (enter joint: learner added, removed, re-added); auto_leave symbolic; reference-semantics equality, invariants (voters/learners disjoint, staged learners inside outgoing, >=1 voter, progress = members), <=1 voter changed for simple, quorum overlap old/new with two symbolic quorums, reject leaves everything untouched",
      |s| c12::change(s, &S3, 1, &[2, 1, 2], &[&[5, 5, 5]]) }
    { cc_enter_learner_remove_learner_333, "C12", thorough, unwind = 8,
      "Changer::enter_joint on S3: ['AddLearnerNode', 'RemoveNode', 'AddLearnerNode'] with ids [3, 3, 3] (enter joint: learner added, removed, re-added); auto_leave symbolic; reference-semantics equality, invariants (voters/learners disjoint, staged learners inside outgoing, >=1 voter, progress = members), <=1 voter changed for simple, quorum overlap old/new with two symbolic quorums, reject leaves everything untouched",
      |s| c12::change(s, &S3, 1, &[2, 1, 2], &[&[3, 3, 3]]) }
    { cc_enter_learner_remove_learner_434, "C12", thorough, unwind = 8,
      "Changer::enter_joint on S3: ['AddLearnerNode', 'RemoveNode', 'AddLearnerNode'] with ids [4, 3, 4] (enter joint: learner added, removed, re-added); auto_leave symbolic; reference-semantics equality, invariants (voters/learners disjoint, staged learners inside outgoing, >=1 voter, progress = members), <=1 voter changed for simple, quorum overlap old/new with two symbolic quorums, reject leaves everything untouched",
      |s| c12::change(s, &S3, 1, &[2, 1, 2], &[&[4, 3, 4]]) }
    { cc_enter_remove_only_voter, "C12,C09", quick, unwind = 8,
      "Changer::enter_joint on the single-voter configuration {1}: RemoveNode(1) would leave no incoming voter -> rejected, nothing changes",
      |s| c12::change(s, &S1, 1, &[1], &[&[1]]) }
    { cc_enter_demote_all_voters, "C12,C09", quick, unwind = 8,
      "Changer::enter_joint on {1,2,3}+learner 4: AddLearner(1), AddLearner(2), AddLearner(3) would leave no incoming voter -> rejected",
      |s| c12::change(s, &S3L, 1, &[2, 2, 2], &[&[1, 2, 3]]) }
    { cc_simple_while_joint, "C12", quick, unwind = 8,
      "Changer::simple on a joint configuration is rejected, tracker untouched",
      |s| c12::change(s, &J2, 0, &[0], &[&[5]]) }
    { cc_enter_while_joint, "C12", quick, unwind = 8,
      "enter_joint on a joint configuration is rejected",
      |s| c12::change(s, &J1, 1, &[0], &[&[5]]) }
    { cc_leave_j1, "C12", quick, unwind = 8,
      "Changer::leave_joint on {1,2}&&{1,2,3} learners {4} staged {3} auto_leave: staged learner becomes learner, outgoing-only peers lose their progress",
      |s| c12::change(s, &J1, 2, &[], &[]) }
    { cc_leave_j2, "C12", quick, unwind = 8,
      "Changer::leave_joint on {1,2,4}&&{1,2,3}",
      |s| c12::change(s, &J2, 2, &[], &[]) }
    { cc_leave_nonjoint, "C12", quick, unwind = 8,
      "leave_joint on a non-joint configuration is rejected",
      |s| c12::change(s, &S3, 2, &[], &[]) }
    { cc_roundtrip_s3, "C12", thorough, unwind = 8,
      "restore(fresh tracker, to_conf_state(C)) reproduces C (sets, auto_leave, progress keys) for C = S3",
      |s| c12::round_trip(s, &S3) }
    { cc_roundtrip_s3l, "C12", quick, unwind = 8,
      "restore(fresh tracker, to_conf_state(C)) reproduces C (sets, auto_leave, progress keys) for C = S3L",
      |s| c12::round_trip(s, &S3L) }
    { cc_roundtrip_s1, "C12", thorough, unwind = 8,
      "restore(fresh tracker, to_conf_state(C)) reproduces C (sets, auto_leave, progress keys) for C = S1",
      |s| c12::round_trip(s, &S1) }
    { cc_roundtrip_j1, "C12", quick, unwind = 8,
      "restore(fresh tracker, to_conf_state(C)) reproduces C (sets, auto_leave, progress keys) for C = J1",
      |s| c12::round_trip(s, &J1) }
    { cc_roundtrip_j2, "C12", thorough, unwind = 8,
      "restore(fresh tracker, to_conf_state(C)) reproduces C (sets, auto_leave, progress keys) for C = J2",
      |s| c12::round_trip(s, &J2) }
    { apply_demote_transferee, "C17,C12,C09", quick, unwind = 8,
      "leader with a pending transfer to 2 applies AddLearnerNode(2): 2 leaves the voters -> transfer abandoned; commit rule under the new configuration",
      |s| c12::apply_step(s, &L21_PP, &[(2, 2)], 0, Some(2)) }
    { apply_remove_transferee, "C17,C12,C09", quick, unwind = 8,
      "leader with a pending transfer to 2 applies RemoveNode(2) -> transfer abandoned",
      |s| c12::apply_step(s, &L21_PP, &[(1, 2)], 0, Some(2)) }
    { apply_keep_transferee, "C17,C12,C09", quick, unwind = 8,
      "leader with a pending transfer to 2 applies AddNode(4): target still a voter -> transfer stays pending",
      |s| c12::apply_step(s, &L21_PP, &[(0, 4)], 0, Some(2)) }
    { apply_leader_demotes_itself, "C09,C12", quick, unwind = 8,
      "leader applies AddLearnerNode(1) (its own demotion): it is no longer promotable",
      |s| c12::apply_step(s, &L21_PP, &[(2, 1)], 0, None) }
    { apply_leader_removes_itself, "C09,C12,C20", quick, unwind = 8,
      "leader applies RemoveNode(1): no longer promotable, no panic",
      |s| c12::apply_step(s, &L21_PP, &[(1, 1)], 0, None) }
    { apply_follower_enter_joint, "C09,C12", quick, unwind = 8,
      "follower applies an explicit enter-joint change (add 4, remove 3): joint configuration per reference semantics, promotable kept",
      |s| c12::apply_step(s, &F30, &[(0, 4), (1, 3)], 2, None) }
    { apply_follower_outgoing_only, "C09,C12,C10", quick, unwind = 8,
      "follower applies an explicit enter-joint change that removes itself from the incoming voters: still a voter through the outgoing half, hence still promotable",
      |s| c12::apply_step(s, &F30, &[(1, 1)], 2, None) }
    { apply_follower_leave_nonjoint, "C09,C12", quick, unwind = 8,
      "follower applies a leave-joint change while not joint: rejected, nothing changes",
      |s| c12::apply_step(s, &F30, &[], 0, None) }
    { apply_follower_demoted, "C09,C12", quick, unwind = 8,
      "follower applies AddLearnerNode(1): not promotable any more",
      |s| c12::apply_step(s, &F30, &[(2, 1)], 0, None) }
    { apply_remove_self_then_ack, "C20,C09", quick, unwind = 8,
      "leader applies RemoveNode(itself) and, still in office, receives an ack that lets the remaining voters {2,3} commit index 2: must not panic, commit follows the new quorum",
      |s| c12::apply_then_ack(s, &L21_BOTH, &[(1, 1)], 2, 2) }
    { apply_demote_self_then_ack, "C20,C09", quick, unwind = 8,
      "leader applies AddLearnerNode(itself) (still tracked as learner) and receives an ack that commits: no panic",
      |s| c12::apply_then_ack(s, &L21_BOTH, &[(2, 1)], 2, 2) }
    // ---------------- C13 / C10 component level: Progress, uncommitted size ----------------
    { progress_probe, "C13,C10", quick, unwind = 8,
      "Progress in Probe state, fully symbolic matched/next/flags: maybe_update, maybe_decr_to (probing terminates: next_idx never rises, stays above matched), is_paused, is_snapshot_caught_up, become_probe/replicate/snapshot",
      |s| c13::progress_ops(s, 0, 0) }
    { progress_replicate_1, "C13,C10", quick, unwind = 8,
      "Progress in Replicate state with one inflight append (window 2), symbolic fields",
      |s| c13::progress_ops(s, 1, 1) }
    { progress_replicate_full, "C13,C10", quick, unwind = 8,
      "Progress in Replicate state with a full window",
      |s| c13::progress_ops(s, 1, 2) }
    { progress_snapshot, "C13,C10,C15", quick, unwind = 8,
      "Progress in Snapshot state with symbolic pending_snapshot: caught up exactly when the snapshot index is acknowledged; probing resumes after it",
      |s| c13::progress_ops(s, 2, 0) }
    { uncommitted_two, "C13,C10", quick, unwind = 8,
      "uncommitted-size accounting with symbolic limit / outstanding size / leadership tail index, proposal of two entries (2 and 1 bytes)",
      |s| c13::uncommitted(s, &F30, &[2, 1]) }
    { uncommitted_empty, "C13", quick, unwind = 8,
      "same with an empty payload (never refused)",
      |s| c13::uncommitted(s, &F30, &[0]) }
    // ---------------- C14 RaftLog ----------------
    { log_append_dup, "C14,C05,C01", quick, unwind = 8,
      "RaftLog::maybe_append on log terms [1,2,3] (2 stable + 1 unstable), prev=(1,1), entries [2,3] (duplicate); symbolic committed/applied/persisted/m.commit; compared with the sequence model",
      |s| c14::maybe_append(s, &L21T, 1, 1, &[2, 3], false) }
    { log_append_conf_stable, "C14,C05,C01", quick, unwind = 8,
      "same, entries [3,3]: conflict at index 2 inside stable storage",
      |s| c14::maybe_append(s, &L21T, 1, 1, &[3, 3], true) }
    { log_append_conf_unstable, "C14,C05,C01", quick, unwind = 8,
      "RaftLog::maybe_append, entries [2,4]: conflict at index 3 inside the unstable suffix",
      |s| c14::maybe_append(s, &L21T, 1, 1, &[2, 4], true) }
    { log_append_extend, "C14,C05,C01", quick, unwind = 8,
      "RaftLog::maybe_append after the last entry, entries [3,4]: pure extension",
      |s| c14::maybe_append(s, &L21T, 3, 3, &[3, 4], true) }
    { log_append_reject, "C14,C05,C01", quick, unwind = 8,
      "RaftLog::maybe_append with a prev (index, term) that is not in the log: refused, nothing changes",
      |s| c14::maybe_append(s, &L21T, 2, 1, &[2], false) }
    { log_queries, "C14,C03", quick, unwind = 8,
      "RaftLog queries on a log of 2 stable + 1 unstable entries (symbolic terms, cursors): term, match_term, is_up_to_date, find_conflict_by_term, has_next_entries_since with symbolic arguments against the sequence model",
      |s| c14::queries(s, &LG21) }
    { log_queries_compacted, "C14,C15", quick, unwind = 8,
      "same on a compacted log (snapshot point 7)",
      |s| c14::queries(s, &LG21B) }
    { log_cursors, "C14,C04,C01", quick, unwind = 8,
      "RaftLog::maybe_commit / commit_to / maybe_persist / applied_to with symbolic (index, term) on 2 stable + 1 unstable entries: cursors move exactly per the model, applied <= committed <= last, persisted never beyond stable storage with matching term",
      |s| c14::cursors(s, &LG21) }
    { log_cursors_compacted, "C14,C04,C01", thorough, unwind = 8,
      "same on a compacted log (snapshot point 7)",
      |s| c14::cursors(s, &LG21B) }
    { log_slice_limit_boundary, "C14,C13,C05,C01", quick, unwind = 8,
      "RaftLog::slice over the stable/unstable boundary with size limits at every prefix-sum boundary (-1, exact, +1), 0 and NO_LIMIT: entries 1..=4 (2 stable + 2 unstable), the second stable entry carries a 40-byte payload -> result is always the maximal contiguous prefix within the limit, at least one entry",
      |s| c14::slice_limit(s, &LG22, &[0, 40, 0, 0], 1, 5) }
    { log_slice_limit_unstable, "C14,C13", quick, unwind = 8,
      "same with the large payload in the first unstable entry",
      |s| c14::slice_limit(s, &LG22, &[0, 0, 40, 0], 1, 5) }
    { log_slice_limit_stable, "C14,C13", thorough, unwind = 8,
      "size-limited slice inside stable storage only (3 stable entries, payloads 0/40/0)",
      |s| c14::slice_limit(s, &LG30, &[0, 40, 0], 1, 4) }
    { log_restore_seq, "C14,C15", quick, unwind = 8,
      "RaftLog::restore(snapshot at symbolic index >= committed, symbolic term) then a stale maybe_persist, stable_snap, maybe_persist_snap: log collapses to the snapshot point, persisted never lands on the pending snapshot index",
      |s| c14::restore_seq(s, &LG21) }
    // ---------------- C19 MemStorage ----------------
    { mem_append_overwrite_compact, "C19", quick, unwind = 8,
      "MemStorage: append 1..=3, overwriting append 2..=3, compact(2); then first/last/term/entries(2,4)/snapshot against the model (symbolic terms)",
      |s| c19::script(s, &[c19::append(1, 3), c19::append(2, 2), c19::compact(2)], 2, 4) }
    { mem_commit_snapshot, "C19", quick, unwind = 8,
      "MemStorage: append 1..=3, commit_to(2): snapshot() carries index 2, its term and the configuration; a larger request index is honoured; entries(1,4)",
      |s| c19::script(s, &[c19::append(1, 3), c19::commit(2)], 1, 4) }
    { mem_snapshot_then_append, "C19", quick, unwind = 8,
      "MemStorage: apply_snapshot(5) on an empty store, append 6..=7, compact(7): term of the snapshot index retained, compacted indexes answer Compacted, entries(7,8)",
      |s| c19::script(s, &[c19::snap(5), c19::append(6, 2), c19::compact(7)], 7, 8) }
    { mem_snapshot_below_commit, "C19", quick, unwind = 8,
      "MemStorage: append 1..=4, hard state with a symbolic commit, apply_snapshot(2) (first_index <= 2): the stored commit becomes 2 and snapshot() is (2, its term)",
      |s| c19::script(s, &[c19::append(1, 4), c19::HS, c19::snap(2)], 3, 2) }
    { mem_conf_after_snapshot, "C19", quick, unwind = 8,
      "MemStorage: apply_snapshot(3) then set_conf_state: a snapshot taken while commit still equals the snapshot point carries the *stored* configuration",
      |s| c19::script(s, &[c19::snap(3), c19::CS], 4, 3) }
    { mem_append_prefix_rewrite, "C19", quick, unwind = 8,
      "MemStorage: append 1..=3, then append of the single entry 2 (possibly identical to the stored one): a truncating overwrite - the log now ends at 2",
      |s| c19::script(s, &[c19::append(1, 3), c19::append(2, 1)], 1, 3) }
    { mem_append_identical_prefix, "C19", quick, unwind = 8,
      "MemStorage: append 1..=3 (all of term 2, concrete), then re-append entry 2 exactly as stored: still a truncating overwrite - the log ends at 2, index 3 is no longer available",
      |s| c19::script(s, &[c19::append_t(1, 3, 2), c19::append_t(2, 1, 2)], 1, 3) }
    { mem_stale_snapshot, "C19", quick, unwind = 8,
      "MemStorage: append 1..=3, compact(3), apply_snapshot(1) (below first_index): SnapshotOutOfDate, nothing changes",
      |s| c19::script(s, &[c19::append(1, 3), c19::compact(3), c19::snap(1)], 3, 4) }
    { mem_compact_below, "C19", thorough, unwind = 8,
      "MemStorage: append 1..=3, compact(1) (no-op), compact(3), overwrite 3..=4",
      |s| c19::script(s, &[c19::append(1, 3), c19::compact(1), c19::compact(3), c19::append(3, 2)], 3, 5) }
    { mem_empty_range_on_empty_store, "C19", quick, unwind = 8,
      "MemStorage: apply_snapshot(5) only; the empty range entries(6, 6) on a store that holds no entries",
      |s| c19::script(s, &[c19::snap(5)], 6, 6) }
    // ---------------- C18 Inflights ----------------
    { c18_base, "C18", quick, unwind = 8,
      "induction base: Inflights::new(c), c in 0..=5, is an II-state denoting the empty FIFO",
      |s| c18::base(s) }
    { c18_seq_wrap, "C18", quick, unwind = 10,
      "public API script new(2): add,add,free_first_one,add(wraps the ring),free_to(x); symbolic indexes; drain-compare pins every tracked index",
      |s| c18::seq(s, 2, &[0,0,2,0,1]) }
    { c18_seq_shrink, "C18", quick, unwind = 10,
      "public API script new(3): add,add,set_cap(1),add(refused: full),free_first_one; drain-compare",
      |s| c18::seq(s, 3, &[0,0,11,0,2]) }
    { c18_seq_grow_wrap, "C18,C13", quick, unwind = 10,
      "Inflights::new(1): add, set_cap(2) on the allocated window (Vec::reserve over-allocates), add, free_first_one, add (must wrap at the logical capacity, not at the allocation), drain-compare",
      |s| c18::seq(s, 1, &[0,12,0,2,0]) }
    { c18_seq_grow_wrap3, "C18,C13", quick, unwind = 10,
      "Inflights::new(2): add, set_cap(3) on the allocated window (reserve grows the allocation to 4), add, add, free_first_one twice, add (wraps at the logical capacity 3), drain-compare",
      |s| c18::seq(s, 2, &[0,13,0,0,2,2,0]) }
    { c18_step_c2_b1_pn_slack, "C18", quick, unwind = 12,
      "inductive step, cap 2, buffer length 1, allocation 2 slots larger than cap (state after a growing set_cap)",
      |s| c18::step_slack(s, 2, 1, true, None, 4, 2) }
    { c18_step_c2_b2_pn_slack, "C18", quick, unwind = 12,
      "inductive step, cap 2, buffer length 2, allocation 2 slots larger than cap",
      |s| c18::step_slack(s, 2, 2, true, None, 4, 2) }
    { c18_step_c2_b2_p1_slack, "C18", quick, unwind = 12,
      "inductive step, cap 2, buffer length 2, pending shrink to 1, allocation 2 slots larger than cap",
      |s| c18::step_slack(s, 2, 2, true, Some(1), 4, 2) }
    { c18_step_c3_b3_pn_slack, "C18", thorough, unwind = 13,
      "inductive step, cap 3, buffer length 3, allocation 3 slots larger than cap",
      |s| c18::step_slack(s, 3, 3, true, None, 5, 3) }
    { c18_step_c0_all, "C18", quick, unwind = 12,
      "one op of every kind (add/free_to/free_first_one/reset/maybe_free_buffer/set_cap(0..=2)) from every II-state with cap=0: all buffer lengths, allocated or not, pending shrinks, ring rotations, fill levels; symbolic contents",
      |s| c18::step_all(s, 0, 2) }
    { c18_step_c1_all, "C18", quick, unwind = 12,
      "one op of every kind (add/free_to/free_first_one/reset/maybe_free_buffer/set_cap(0..=3)) from every II-state with cap=1: all buffer lengths, allocated or not, pending shrinks, ring rotations, fill levels; symbolic contents",
      |s| c18::step_all(s, 1, 3) }
    { c18_step_c2_unalloc, "C18", quick, unwind = 12,
      "one op of every kind from the unallocated empty state, cap=2",
      |s| c18::step(s, 2, 0, false, None, 4) }
    { c18_step_c2_b0_pn, "C18", quick, unwind = 12,
      "one op of every kind (incl. set_cap(0..=4)) from every II-state with cap=2, 0 initialised buffer slots, pending shrink None: all ring rotations and fill levels, symbolic contents",
      |s| c18::step(s, 2, 0, true, None, 4) }
    { c18_step_c2_b1_pn, "C18", quick, unwind = 12,
      "one op of every kind (incl. set_cap(0..=4)) from every II-state with cap=2, 1 initialised buffer slots, pending shrink None: all ring rotations and fill levels, symbolic contents",
      |s| c18::step(s, 2, 1, true, None, 4) }
    { c18_step_c2_b1_p0, "C18", quick, unwind = 12,
      "one op of every kind (incl. set_cap(0..=4)) from every II-state with cap=2, 1 initialised buffer slots, pending shrink Some(0): all ring rotations and fill levels, symbolic contents",
      |s| c18::step(s, 2, 1, true, Some(0), 4) }
    { c18_step_c2_b1_p1, "C18", quick, unwind = 12,
      "one op of every kind (incl. set_cap(0..=4)) from every II-state with cap=2, 1 initialised buffer slots, pending shrink Some(1): all ring rotations and fill levels, symbolic contents",
      |s| c18::step(s, 2, 1, true, Some(1), 4) }
    { c18_step_c2_b2_pn, "C18", quick, unwind = 12,
      "one op of every kind (incl. set_cap(0..=4)) from every II-state with cap=2, 2 initialised buffer slots, pending shrink None: all ring rotations and fill levels, symbolic contents",
      |s| c18::step(s, 2, 2, true, None, 4) }
    { c18_step_c2_b2_p0, "C18,C13", quick, unwind = 12,
      "one op of every kind (incl. set_cap(0..=4)) from every II-state with cap=2, 2 initialised buffer slots, pending shrink Some(0): all ring rotations and fill levels, symbolic contents",
      |s| c18::step(s, 2, 2, true, Some(0), 4) }
    { c18_step_c2_b2_p1, "C18,C13", quick, unwind = 12,
      "one op of every kind (incl. set_cap(0..=4)) from every II-state with cap=2, 2 initialised buffer slots, pending shrink Some(1): all ring rotations and fill levels, symbolic contents",
      |s| c18::step(s, 2, 2, true, Some(1), 4) }
    { c18_step_c3_unalloc, "C18", thorough, unwind = 13,
      "one op of every kind from the unallocated empty state, cap=3",
      |s| c18::step(s, 3, 0, false, None, 5) }
    { c18_step_c3_b0_pn, "C18", thorough, unwind = 13,
      "one op of every kind (incl. set_cap(0..=5)) from every II-state with cap=3, 0 initialised buffer slots, pending shrink None: all ring rotations and fill levels, symbolic contents",
      |s| c18::step(s, 3, 0, true, None, 5) }
    { c18_step_c3_b1_pn, "C18", thorough, unwind = 13,
      "one op of every kind (incl. set_cap(0..=5)) from every II-state with cap=3, 1 initialised buffer slots, pending shrink None: all ring rotations and fill levels, symbolic contents",
      |s| c18::step(s, 3, 1, true, None, 5) }
    { c18_step_c3_b1_p0, "C18", thorough, unwind = 13,
      "one op of every kind (incl. set_cap(0..=5)) from every II-state with cap=3, 1 initialised buffer slots, pending shrink Some(0): all ring rotations and fill levels, symbolic contents",
      |s| c18::step(s, 3, 1, true, Some(0), 5) }
    { c18_step_c3_b1_p1, "C18", thorough, unwind = 13,
      "one op of every kind (incl. set_cap(0..=5)) from every II-state with cap=3, 1 initialised buffer slots, pending shrink Some(1): all ring rotations and fill levels, symbolic contents",
      |s| c18::step(s, 3, 1, true, Some(1), 5) }
    { c18_step_c3_b1_p2, "C18", thorough, unwind = 13,
      "one op of every kind (incl. set_cap(0..=5)) from every II-state with cap=3, 1 initialised buffer slots, pending shrink Some(2): all ring rotations and fill levels, symbolic contents",
      |s| c18::step(s, 3, 1, true, Some(2), 5) }
    { c18_step_c3_b2_pn, "C18", thorough, unwind = 13,
      "one op of every kind (incl. set_cap(0..=5)) from every II-state with cap=3, 2 initialised buffer slots, pending shrink None: all ring rotations and fill levels, symbolic contents",
      |s| c18::step(s, 3, 2, true, None, 5) }
    { c18_step_c3_b2_p0, "C18", thorough, unwind = 13,
      "one op of every kind (incl. set_cap(0..=5)) from every II-state with cap=3, 2 initialised buffer slots, pending shrink Some(0): all ring rotations and fill levels, symbolic contents",
      |s| c18::step(s, 3, 2, true, Some(0), 5) }
    { c18_step_c3_b2_p1, "C18", thorough, unwind = 13,
      "one op of every kind (incl. set_cap(0..=5)) from every II-state with cap=3, 2 initialised buffer slots, pending shrink Some(1): all ring rotations and fill levels, symbolic contents",
      |s| c18::step(s, 3, 2, true, Some(1), 5) }
    { c18_step_c3_b2_p2, "C18", thorough, unwind = 13,
      "one op of every kind (incl. set_cap(0..=5)) from every II-state with cap=3, 2 initialised buffer slots, pending shrink Some(2): all ring rotations and fill levels, symbolic contents",
      |s| c18::step(s, 3, 2, true, Some(2), 5) }
    { c18_step_c3_b3_pn, "C18", quick, unwind = 13,
      "one op of every kind (incl. set_cap(0..=5)) from every II-state with cap=3, 3 initialised buffer slots, pending shrink None: all ring rotations and fill levels, symbolic contents",
      |s| c18::step(s, 3, 3, true, None, 5) }
    { c18_step_c3_b3_p0, "C18", thorough, unwind = 13,
      "one op of every kind (incl. set_cap(0..=5)) from every II-state with cap=3, 3 initialised buffer slots, pending shrink Some(0): all ring rotations and fill levels, symbolic contents",
      |s| c18::step(s, 3, 3, true, Some(0), 5) }
    { c18_step_c3_b3_p1, "C18", quick, unwind = 13,
      "one op of every kind (incl. set_cap(0..=5)) from every II-state with cap=3, 3 initialised buffer slots, pending shrink Some(1): all ring rotations and fill levels, symbolic contents",
      |s| c18::step(s, 3, 3, true, Some(1), 5) }
    { c18_step_c3_b3_p2, "C18", thorough, unwind = 13,
      "one op of every kind (incl. set_cap(0..=5)) from every II-state with cap=3, 3 initialised buffer slots, pending shrink Some(2): all ring rotations and fill levels, symbolic contents",
      |s| c18::step(s, 3, 3, true, Some(2), 5) }
    { c18_step_c4_unalloc, "C18", thorough, unwind = 14,
      "one op of every kind from the unallocated empty state, cap=4",
      |s| c18::step(s, 4, 0, false, None, 6) }
    { c18_step_c4_b0_pn, "C18", thorough, unwind = 14,
      "one op of every kind (incl. set_cap(0..=6)) from every II-state with cap=4, 0 initialised buffer slots, pending shrink None: all ring rotations and fill levels, symbolic contents",
      |s| c18::step(s, 4, 0, true, None, 6) }
    { c18_step_c4_b1_pn, "C18", thorough, unwind = 14,
      "one op of every kind (incl. set_cap(0..=6)) from every II-state with cap=4, 1 initialised buffer slots, pending shrink None: all ring rotations and fill levels, symbolic contents",
      |s| c18::step(s, 4, 1, true, None, 6) }
    { c18_step_c4_b1_p0, "C18", thorough, unwind = 14,
      "one op of every kind (incl. set_cap(0..=6)) from every II-state with cap=4, 1 initialised buffer slots, pending shrink Some(0): all ring rotations and fill levels, symbolic contents",
      |s| c18::step(s, 4, 1, true, Some(0), 6) }
    { c18_step_c4_b1_p1, "C18", thorough, unwind = 14,
      "one op of every kind (incl. set_cap(0..=6)) from every II-state with cap=4, 1 initialised buffer slots, pending shrink Some(1): all ring rotations and fill levels, symbolic contents",
      |s| c18::step(s, 4, 1, true, Some(1), 6) }
    { c18_step_c4_b1_p2, "C18", thorough, unwind = 14,
      "one op of every kind (incl. set_cap(0..=6)) from every II-state with cap=4, 1 initialised buffer slots, pending shrink Some(2): all ring rotations and fill levels, symbolic contents",
      |s| c18::step(s, 4, 1, true, Some(2), 6) }
    { c18_step_c4_b1_p3, "C18", thorough, unwind = 14,
      "one op of every kind (incl. set_cap(0..=6)) from every II-state with cap=4, 1 initialised buffer slots, pending shrink Some(3): all ring rotations and fill levels, symbolic contents",
      |s| c18::step(s, 4, 1, true, Some(3), 6) }
    { c18_step_c4_b2_pn, "C18", thorough, unwind = 14,
      "one op of every kind (incl. set_cap(0..=6)) from every II-state with cap=4, 2 initialised buffer slots, pending shrink None: all ring rotations and fill levels, symbolic contents",
      |s| c18::step(s, 4, 2, true, None, 6) }
    { c18_step_c4_b2_p0, "C18", thorough, unwind = 14,
      "one op of every kind (incl. set_cap(0..=6)) from every II-state with cap=4, 2 initialised buffer slots, pending shrink Some(0): all ring rotations and fill levels, symbolic contents",
      |s| c18::step(s, 4, 2, true, Some(0), 6) }
    { c18_step_c4_b2_p1, "C18", thorough, unwind = 14,
      "one op of every kind (incl. set_cap(0..=6)) from every II-state with cap=4, 2 initialised buffer slots, pending shrink Some(1): all ring rotations and fill levels, symbolic contents",
      |s| c18::step(s, 4, 2, true, Some(1), 6) }
    { c18_step_c4_b2_p2, "C18", thorough, unwind = 14,
      "one op of every kind (incl. set_cap(0..=6)) from every II-state with cap=4, 2 initialised buffer slots, pending shrink Some(2): all ring rotations and fill levels, symbolic contents",
      |s| c18::step(s, 4, 2, true, Some(2), 6) }
    { c18_step_c4_b2_p3, "C18", thorough, unwind = 14,
      "one op of every kind (incl. set_cap(0..=6)) from every II-state with cap=4, 2 initialised buffer slots, pending shrink Some(3): all ring rotations and fill levels, symbolic contents",
      |s| c18::step(s, 4, 2, true, Some(3), 6) }
    { c18_step_c4_b3_pn, "C18", thorough, unwind = 14,
      "one op of every kind (incl. set_cap(0..=6)) from every II-state with cap=4, 3 initialised buffer slots, pending shrink None: all ring rotations and fill levels, symbolic contents",
      |s| c18::step(s, 4, 3, true, None, 6) }
    { c18_step_c4_b3_p0, "C18", thorough, unwind = 14,
      "one op of every kind (incl. set_cap(0..=6)) from every II-state with cap=4, 3 initialised buffer slots, pending shrink Some(0): all ring rotations and fill levels, symbolic contents",
      |s| c18::step(s, 4, 3, true, Some(0), 6) }
    { c18_step_c4_b3_p1, "C18", thorough, unwind = 14,
      "one op of every kind (incl. set_cap(0..=6)) from every II-state with cap=4, 3 initialised buffer slots, pending shrink Some(1): all ring rotations and fill levels, symbolic contents",
      |s| c18::step(s, 4, 3, true, Some(1), 6) }
    { c18_step_c4_b3_p2, "C18", thorough, unwind = 14,
      "one op of every kind (incl. set_cap(0..=6)) from every II-state with cap=4, 3 initialised buffer slots, pending shrink Some(2): all ring rotations and fill levels, symbolic contents",
      |s| c18::step(s, 4, 3, true, Some(2), 6) }
    { c18_step_c4_b3_p3, "C18", thorough, unwind = 14,
      "one op of every kind (incl. set_cap(0..=6)) from every II-state with cap=4, 3 initialised buffer slots, pending shrink Some(3): all ring rotations and fill levels, symbolic contents",
      |s| c18::step(s, 4, 3, true, Some(3), 6) }
    { c18_step_c4_b4_pn, "C18", thorough, unwind = 14,
      "one op of every kind (incl. set_cap(0..=6)) from every II-state with cap=4, 4 initialised buffer slots, pending shrink None: all ring rotations and fill levels, symbolic contents",
      |s| c18::step(s, 4, 4, true, None, 6) }
    { c18_step_c4_b4_p0, "C18", thorough, unwind = 14,
      "one op of every kind (incl. set_cap(0..=6)) from every II-state with cap=4, 4 initialised buffer slots, pending shrink Some(0): all ring rotations and fill levels, symbolic contents",
      |s| c18::step(s, 4, 4, true, Some(0), 6) }
    { c18_step_c4_b4_p1, "C18", thorough, unwind = 14,
      "one op of every kind (incl. set_cap(0..=6)) from every II-state with cap=4, 4 initialised buffer slots, pending shrink Some(1): all ring rotations and fill levels, symbolic contents",
      |s| c18::step(s, 4, 4, true, Some(1), 6) }
    { c18_step_c4_b4_p2, "C18", thorough, unwind = 14,
      "one op of every kind (incl. set_cap(0..=6)) from every II-state with cap=4, 4 initialised buffer slots, pending shrink Some(2): all ring rotations and fill levels, symbolic contents",
      |s| c18::step(s, 4, 4, true, Some(2), 6) }
    { c18_step_c4_b4_p3, "C18", thorough, unwind = 14,
      "one op of every kind (incl. set_cap(0..=6)) from every II-state with cap=4, 4 initialised buffer slots, pending shrink Some(3): all ring rotations and fill levels, symbolic contents",
      |s| c18::step(s, 4, 4, true, Some(3), 6) }
}
