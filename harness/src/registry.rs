//! The list of harnesses (one `#[kani::proof]` each + native registry).
use crate::*;

harnesses! {
    { selftest_fail, "SELFTEST", quick, unwind = 4, "planted violation for the witness-extraction self-test", |s| selftest::fail_branchy(s) }
    { selftest_pass, "SELFTEST", quick, unwind = 4, "trivial pass", |s| selftest::pass_trivial(s) }
    // ---------------- C18 Inflights ----------------
    { c18_base, "C18", quick, unwind = 8,
      "induction base: Inflights::new(c), c in 0..=5, is an II-state denoting the empty FIFO",
      |s| c18::base(s) }
    { c18_seq_wrap, "C18", quick, unwind = 10,
      "public API script new(2): add,add,free_first_one,add(wraps the ring),free_to(x); symbolic indexes; drain-compare pins every tracked index",
      |s| c18::seq(s, 2, &[0,0,2,0,1]) }
    { c18_seq_shrink, "C18", quick, unwind = 10,
      "public API script new(3): add,add,set_cap(1),add(refused: full),free_first_one; drain-compare",
      |s| c18::seq(s, 3, &[0,0,11,0,2]) }
    { c18_step_c0_all, "C18", quick, unwind = 12,
      "one op of every kind (add/free_to/free_first_one/reset/maybe_free_buffer/set_cap(0..=2)) from every II-state with cap=0: all buffer lengths, allocated or not, pending shrinks, ring rotations, fill levels; symbolic contents",
      |s| c18::step_all(s, 0, 2) }
    { c18_step_c1_all, "C18", quick, unwind = 12,
      "one op of every kind (add/free_to/free_first_one/reset/maybe_free_buffer/set_cap(0..=3)) from every II-state with cap=1: all buffer lengths, allocated or not, pending shrinks, ring rotations, fill levels; symbolic contents",
      |s| c18::step_all(s, 1, 3) }
    { c18_step_c2_unalloc, "C18", quick, unwind = 12,
      "one op of every kind from the unallocated empty state, cap=2",
      |s| c18::step(s, 2, 0, false, None, 4) }
    { c18_step_c2_b0_pn, "C18", quick, unwind = 12,
      "one op of every kind (incl. set_cap(0..=4)) from every II-state with cap=2, 0 initialised buffer slots, pending shrink None: all ring rotations and fill levels, symbolic contents",
      |s| c18::step(s, 2, 0, true, None, 4) }
    { c18_step_c2_b1_pn, "C18", quick, unwind = 12,
      "one op of every kind (incl. set_cap(0..=4)) from every II-state with cap=2, 1 initialised buffer slots, pending shrink None: all ring rotations and fill levels, symbolic contents",
      |s| c18::step(s, 2, 1, true, None, 4) }
    { c18_step_c2_b1_p0, "C18", quick, unwind = 12,
      "one op of every kind (incl. set_cap(0..=4)) from every II-state with cap=2, 1 initialised buffer slots, pending shrink Some(0): all ring rotations and fill levels, symbolic contents",
      |s| c18::step(s, 2, 1, true, Some(0), 4) }
    { c18_step_c2_b1_p1, "C18", quick, unwind = 12,
      "one op of every kind (incl. set_cap(0..=4)) from every II-state with cap=2, 1 initialised buffer slots, pending shrink Some(1): all ring rotations and fill levels, symbolic contents",
      |s| c18::step(s, 2, 1, true, Some(1), 4) }
    { c18_step_c2_b2_pn, "C18", quick, unwind = 12,
      "one op of every kind (incl. set_cap(0..=4)) from every II-state with cap=2, 2 initialised buffer slots, pending shrink None: all ring rotations and fill levels, symbolic contents",
      |s| c18::step(s, 2, 2, true, None, 4) }
    { c18_step_c2_b2_p0, "C18", quick, unwind = 12,
      "one op of every kind (incl. set_cap(0..=4)) from every II-state with cap=2, 2 initialised buffer slots, pending shrink Some(0): all ring rotations and fill levels, symbolic contents",
      |s| c18::step(s, 2, 2, true, Some(0), 4) }
    { c18_step_c2_b2_p1, "C18", quick, unwind = 12,
      "one op of every kind (incl. set_cap(0..=4)) from every II-state with cap=2, 2 initialised buffer slots, pending shrink Some(1): all ring rotations and fill levels, symbolic contents",
      |s| c18::step(s, 2, 2, true, Some(1), 4) }
    { c18_step_c3_unalloc, "C18", thorough, unwind = 13,
      "one op of every kind from the unallocated empty state, cap=3",
      |s| c18::step(s, 3, 0, false, None, 5) }
    { c18_step_c3_b0_pn, "C18", thorough, unwind = 13,
      "one op of every kind (incl. set_cap(0..=5)) from every II-state with cap=3, 0 initialised buffer slots, pending shrink None: all ring rotations and fill levels, symbolic contents",
      |s| c18::step(s, 3, 0, true, None, 5) }
    { c18_step_c3_b1_pn, "C18", thorough, unwind = 13,
      "one op of every kind (incl. set_cap(0..=5)) from every II-state with cap=3, 1 initialised buffer slots, pending shrink None: all ring rotations and fill levels, symbolic contents",
      |s| c18::step(s, 3, 1, true, None, 5) }
    { c18_step_c3_b1_p0, "C18", thorough, unwind = 13,
      "one op of every kind (incl. set_cap(0..=5)) from every II-state with cap=3, 1 initialised buffer slots, pending shrink Some(0): all ring rotations and fill levels, symbolic contents",
      |s| c18::step(s, 3, 1, true, Some(0), 5) }
    { c18_step_c3_b1_p1, "C18", thorough, unwind = 13,
      "one op of every kind (incl. set_cap(0..=5)) from every II-state with cap=3, 1 initialised buffer slots, pending shrink Some(1): all ring rotations and fill levels, symbolic contents",
      |s| c18::step(s, 3, 1, true, Some(1), 5) }
    { c18_step_c3_b1_p2, "C18", thorough, unwind = 13,
      "one op of every kind (incl. set_cap(0..=5)) from every II-state with cap=3, 1 initialised buffer slots, pending shrink Some(2): all ring rotations and fill levels, symbolic contents",
      |s| c18::step(s, 3, 1, true, Some(2), 5) }
    { c18_step_c3_b2_pn, "C18", thorough, unwind = 13,
      "one op of every kind (incl. set_cap(0..=5)) from every II-state with cap=3, 2 initialised buffer slots, pending shrink None: all ring rotations and fill levels, symbolic contents",
      |s| c18::step(s, 3, 2, true, None, 5) }
    { c18_step_c3_b2_p0, "C18", thorough, unwind = 13,
      "one op of every kind (incl. set_cap(0..=5)) from every II-state with cap=3, 2 initialised buffer slots, pending shrink Some(0): all ring rotations and fill levels, symbolic contents",
      |s| c18::step(s, 3, 2, true, Some(0), 5) }
    { c18_step_c3_b2_p1, "C18", thorough, unwind = 13,
      "one op of every kind (incl. set_cap(0..=5)) from every II-state with cap=3, 2 initialised buffer slots, pending shrink Some(1): all ring rotations and fill levels, symbolic contents",
      |s| c18::step(s, 3, 2, true, Some(1), 5) }
    { c18_step_c3_b2_p2, "C18", thorough, unwind = 13,
      "one op of every kind (incl. set_cap(0..=5)) from every II-state with cap=3, 2 initialised buffer slots, pending shrink Some(2): all ring rotations and fill levels, symbolic contents",
      |s| c18::step(s, 3, 2, true, Some(2), 5) }
    { c18_step_c3_b3_pn, "C18", quick, unwind = 13,
      "one op of every kind (incl. set_cap(0..=5)) from every II-state with cap=3, 3 initialised buffer slots, pending shrink None: all ring rotations and fill levels, symbolic contents",
      |s| c18::step(s, 3, 3, true, None, 5) }
    { c18_step_c3_b3_p0, "C18", thorough, unwind = 13,
      "one op of every kind (incl. set_cap(0..=5)) from every II-state with cap=3, 3 initialised buffer slots, pending shrink Some(0): all ring rotations and fill levels, symbolic contents",
      |s| c18::step(s, 3, 3, true, Some(0), 5) }
    { c18_step_c3_b3_p1, "C18", quick, unwind = 13,
      "one op of every kind (incl. set_cap(0..=5)) from every II-state with cap=3, 3 initialised buffer slots, pending shrink Some(1): all ring rotations and fill levels, symbolic contents",
      |s| c18::step(s, 3, 3, true, Some(1), 5) }
    { c18_step_c3_b3_p2, "C18", thorough, unwind = 13,
      "one op of every kind (incl. set_cap(0..=5)) from every II-state with cap=3, 3 initialised buffer slots, pending shrink Some(2): all ring rotations and fill levels, symbolic contents",
      |s| c18::step(s, 3, 3, true, Some(2), 5) }
    { c18_step_c4_unalloc, "C18", thorough, unwind = 14,
      "one op of every kind from the unallocated empty state, cap=4",
      |s| c18::step(s, 4, 0, false, None, 6) }
    { c18_step_c4_b0_pn, "C18", thorough, unwind = 14,
      "one op of every kind (incl. set_cap(0..=6)) from every II-state with cap=4, 0 initialised buffer slots, pending shrink None: all ring rotations and fill levels, symbolic contents",
      |s| c18::step(s, 4, 0, true, None, 6) }
    { c18_step_c4_b1_pn, "C18", thorough, unwind = 14,
      "one op of every kind (incl. set_cap(0..=6)) from every II-state with cap=4, 1 initialised buffer slots, pending shrink None: all ring rotations and fill levels, symbolic contents",
      |s| c18::step(s, 4, 1, true, None, 6) }
    { c18_step_c4_b1_p0, "C18", thorough, unwind = 14,
      "one op of every kind (incl. set_cap(0..=6)) from every II-state with cap=4, 1 initialised buffer slots, pending shrink Some(0): all ring rotations and fill levels, symbolic contents",
      |s| c18::step(s, 4, 1, true, Some(0), 6) }
    { c18_step_c4_b1_p1, "C18", thorough, unwind = 14,
      "one op of every kind (incl. set_cap(0..=6)) from every II-state with cap=4, 1 initialised buffer slots, pending shrink Some(1): all ring rotations and fill levels, symbolic contents",
      |s| c18::step(s, 4, 1, true, Some(1), 6) }
    { c18_step_c4_b1_p2, "C18", thorough, unwind = 14,
      "one op of every kind (incl. set_cap(0..=6)) from every II-state with cap=4, 1 initialised buffer slots, pending shrink Some(2): all ring rotations and fill levels, symbolic contents",
      |s| c18::step(s, 4, 1, true, Some(2), 6) }
    { c18_step_c4_b1_p3, "C18", thorough, unwind = 14,
      "one op of every kind (incl. set_cap(0..=6)) from every II-state with cap=4, 1 initialised buffer slots, pending shrink Some(3): all ring rotations and fill levels, symbolic contents",
      |s| c18::step(s, 4, 1, true, Some(3), 6) }
    { c18_step_c4_b2_pn, "C18", thorough, unwind = 14,
      "one op of every kind (incl. set_cap(0..=6)) from every II-state with cap=4, 2 initialised buffer slots, pending shrink None: all ring rotations and fill levels, symbolic contents",
      |s| c18::step(s, 4, 2, true, None, 6) }
    { c18_step_c4_b2_p0, "C18", thorough, unwind = 14,
      "one op of every kind (incl. set_cap(0..=6)) from every II-state with cap=4, 2 initialised buffer slots, pending shrink Some(0): all ring rotations and fill levels, symbolic contents",
      |s| c18::step(s, 4, 2, true, Some(0), 6) }
    { c18_step_c4_b2_p1, "C18", thorough, unwind = 14,
      "one op of every kind (incl. set_cap(0..=6)) from every II-state with cap=4, 2 initialised buffer slots, pending shrink Some(1): all ring rotations and fill levels, symbolic contents",
      |s| c18::step(s, 4, 2, true, Some(1), 6) }
    { c18_step_c4_b2_p2, "C18", thorough, unwind = 14,
      "one op of every kind (incl. set_cap(0..=6)) from every II-state with cap=4, 2 initialised buffer slots, pending shrink Some(2): all ring rotations and fill levels, symbolic contents",
      |s| c18::step(s, 4, 2, true, Some(2), 6) }
    { c18_step_c4_b2_p3, "C18", thorough, unwind = 14,
      "one op of every kind (incl. set_cap(0..=6)) from every II-state with cap=4, 2 initialised buffer slots, pending shrink Some(3): all ring rotations and fill levels, symbolic contents",
      |s| c18::step(s, 4, 2, true, Some(3), 6) }
    { c18_step_c4_b3_pn, "C18", thorough, unwind = 14,
      "one op of every kind (incl. set_cap(0..=6)) from every II-state with cap=4, 3 initialised buffer slots, pending shrink None: all ring rotations and fill levels, symbolic contents",
      |s| c18::step(s, 4, 3, true, None, 6) }
    { c18_step_c4_b3_p0, "C18", thorough, unwind = 14,
      "one op of every kind (incl. set_cap(0..=6)) from every II-state with cap=4, 3 initialised buffer slots, pending shrink Some(0): all ring rotations and fill levels, symbolic contents",
      |s| c18::step(s, 4, 3, true, Some(0), 6) }
    { c18_step_c4_b3_p1, "C18", thorough, unwind = 14,
      "one op of every kind (incl. set_cap(0..=6)) from every II-state with cap=4, 3 initialised buffer slots, pending shrink Some(1): all ring rotations and fill levels, symbolic contents",
      |s| c18::step(s, 4, 3, true, Some(1), 6) }
    { c18_step_c4_b3_p2, "C18", thorough, unwind = 14,
      "one op of every kind (incl. set_cap(0..=6)) from every II-state with cap=4, 3 initialised buffer slots, pending shrink Some(2): all ring rotations and fill levels, symbolic contents",
      |s| c18::step(s, 4, 3, true, Some(2), 6) }
    { c18_step_c4_b3_p3, "C18", thorough, unwind = 14,
      "one op of every kind (incl. set_cap(0..=6)) from every II-state with cap=4, 3 initialised buffer slots, pending shrink Some(3): all ring rotations and fill levels, symbolic contents",
      |s| c18::step(s, 4, 3, true, Some(3), 6) }
    { c18_step_c4_b4_pn, "C18", thorough, unwind = 14,
      "one op of every kind (incl. set_cap(0..=6)) from every II-state with cap=4, 4 initialised buffer slots, pending shrink None: all ring rotations and fill levels, symbolic contents",
      |s| c18::step(s, 4, 4, true, None, 6) }
    { c18_step_c4_b4_p0, "C18", thorough, unwind = 14,
      "one op of every kind (incl. set_cap(0..=6)) from every II-state with cap=4, 4 initialised buffer slots, pending shrink Some(0): all ring rotations and fill levels, symbolic contents",
      |s| c18::step(s, 4, 4, true, Some(0), 6) }
    { c18_step_c4_b4_p1, "C18", thorough, unwind = 14,
      "one op of every kind (incl. set_cap(0..=6)) from every II-state with cap=4, 4 initialised buffer slots, pending shrink Some(1): all ring rotations and fill levels, symbolic contents",
      |s| c18::step(s, 4, 4, true, Some(1), 6) }
    { c18_step_c4_b4_p2, "C18", thorough, unwind = 14,
      "one op of every kind (incl. set_cap(0..=6)) from every II-state with cap=4, 4 initialised buffer slots, pending shrink Some(2): all ring rotations and fill levels, symbolic contents",
      |s| c18::step(s, 4, 4, true, Some(2), 6) }
    { c18_step_c4_b4_p3, "C18", thorough, unwind = 14,
      "one op of every kind (incl. set_cap(0..=6)) from every II-state with cap=4, 4 initialised buffer slots, pending shrink Some(3): all ring rotations and fill levels, symbolic contents",
      |s| c18::step(s, 4, 4, true, Some(3), 6) }
}
