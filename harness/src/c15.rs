//! C15 - snapshot install on a follower (the four-way case split of `Raft::restore`) and the
//! continuation of the log after it.

use crate::c12::{mask, read};
use crate::inp::Src;
use crate::state::*;
use raft::eraftpb::{ConfState, Entry, Message, MessageType, Snapshot, SnapshotMetadata};
use raft::StateRole;

/// Follower-side `request_snapshot()`: a request that is accepted names the node's last index
/// (a requested snapshot is installed unconditionally, so anything older would discard entries
/// the node already acknowledged) and goes to the leader as a rejecting MsgAppendResponse.
pub fn request_snapshot_step(s: &mut Src, sh: &Shape) {
    let (mut r, g) = mk_raft(s, sh);
    if s.bool() {
        r.pending_request_snapshot = g.last();
    }
    let (term0, lead0) = (r.term, r.leader_id);
    let pend0 = r.pending_request_snapshot;
    let res = r.request_snapshot();
    assert!(r.term == term0 && r.state == StateRole::Follower && r.raft_log.last_index() == g.last() && r.raft_log.committed == g.committed);
    let eligible = lead0 != 0 && pend0 == 0 && g.last_term() == term0;
    assert!(res.is_ok() == eligible, "request accepted exactly with a known leader, no request pending and a last entry of the current term");
    if eligible {
        assert!(r.pending_request_snapshot == g.last(), "requested index must cover everything the node holds");
        assert!(r.msgs.len() == 1);
        let m = &r.msgs[0];
        assert!(m.get_msg_type() == MessageType::MsgAppendResponse && m.to == lead0 && m.reject);
        assert!(m.request_snapshot == g.last() && m.request_snapshot >= g.committed, "snapshot request names an index below the node's last index");
        assert!(m.reject_hint == g.last() && m.log_term == g.last_term() && m.index == g.committed);
    } else {
        assert!(r.msgs.is_empty() && r.pending_request_snapshot == pend0);
    }
    let possible = g.last_term() == term0;
    vcover!(!possible || eligible, "request sent (where the shape admits it)");
    vcover!(!eligible, "request dropped");
    forget(r);
}

/// `idx` / `term_sel`: snapshot index and term (term_sel 0 = the local term at idx, making the
/// snapshot "already matching"; otherwise the literal term).  `voters..`: its ConfState.
/// `requested`: the follower had asked for a snapshot.  `follow_up`: afterwards a MsgAppend
/// anchored at the snapshot point with one entry must be accepted.
pub fn snapshot_step(
    s: &mut Src,
    sh: &Shape,
    idx: u64,
    term_sel: u64,
    voters: &'static [u64],
    outgoing: &'static [u64],
    learners: &'static [u64],
    learners_next: &'static [u64],
    requested: bool,
    follow_up: bool,
) {
    let (mut r, g) = mk_raft(s, sh);
    if requested {
        r.pending_request_snapshot = g.last();
    }
    let sterm = if term_sel == 0 { g.term_at(idx).unwrap_or(1) } else { term_sel };
    let mut m = msg(MessageType::MsgSnapshot, 2, r.term);
    let mut snap = Snapshot::default();
    let mut md = SnapshotMetadata::default();
    md.index = idx;
    md.term = sterm;
    let mut cs = ConfState::default();
    cs.voters = voters.to_vec();
    cs.voters_outgoing = outgoing.to_vec();
    cs.learners = learners.to_vec();
    cs.learners_next = learners_next.to_vec();
    cs.auto_leave = !outgoing.is_empty();
    md.conf_state = Some(cs);
    snap.metadata = Some(md);
    m.snapshot = Some(snap);
    let conf0 = read(r.prs());
    let term0 = r.term;
    let res = r.step(m);
    assert!(res.is_ok());
    assert!(r.term == term0 && r.state == StateRole::Follower && r.leader_id == 2);
    assert!(r.msgs.len() == 1);
    let a = &r.msgs[0];
    assert!(a.get_msg_type() == MessageType::MsgAppendResponse && a.to == 2 && !a.reject);
    let member = has(voters, ME) || has(outgoing, ME) || has(learners, ME);
    let stale = idx < g.committed;
    let matching = g.term_at(idx) == Some(sterm) && idx <= g.last();
    let installed = !stale && member && !(matching && !requested);
    if installed {
        // afterwards the node looks like one that applied the log up to the snapshot index
        assert!(r.raft_log.committed == idx && r.raft_log.last_index() == idx && r.raft_log.last_term() == sterm, "log after snapshot install");
        assert!(r.raft_log.first_index() == idx + 1);
        assert!(r.raft_log.unstable.snapshot.is_some() && r.raft_log.unstable_entries().is_empty());
        assert!(r.raft_log.persisted <= g.committed, "persisted must not cover discarded entries");
        let c1 = read(r.prs());
        assert!(c1.inc == mask(voters) && c1.out == mask(outgoing) && c1.lrn == mask(learners) && c1.nxt == mask(learners_next), "configuration after install = the snapshot's ConfState");
        assert!(c1.auto == !outgoing.is_empty());
        assert!(c1.prs == c1.inc | c1.out | c1.lrn | c1.nxt, "progress tracked for exactly the members");
        assert!(r.promotable() == (has(voters, ME) || has(outgoing, ME)));
        assert!(r.pending_request_snapshot == 0);
        assert!(a.index == idx, "install acknowledged with the snapshot index");
    } else {
        // nothing is discarded
        assert!(r.raft_log.last_index() == g.last() && r.raft_log.unstable.snapshot.is_none());
        let mut i = g.base;
        while i <= g.last() {
            assert!(r.raft_log.term(i).ok() == g.term_at(i), "ignored snapshot altered the log");
            i += 1;
        }
        assert!(read(r.prs()) == conf0, "ignored snapshot altered the configuration");
        if !stale && member && matching {
            // already have it: only the commit index moves
            assert!(r.raft_log.committed == if idx > g.committed { idx } else { g.committed }, "matching snapshot must only fast-forward commit");
        } else {
            assert!(r.raft_log.committed == g.committed);
        }
        assert!(a.index == r.raft_log.committed);
    }
    if follow_up && installed {
        r.msgs.clear();
        let mut ap = msg(MessageType::MsgAppend, 2, term0);
        ap.index = idx;
        ap.log_term = sterm;
        ap.commit = idx;
        let mut e = Entry::default();
        e.index = idx + 1;
        e.term = term0;
        ap.entries.push(e);
        let res = r.step(ap);
        assert!(res.is_ok());
        assert!(r.raft_log.last_index() == idx + 1 && r.raft_log.last_term() == term0, "log does not continue right after the snapshot");
        assert!(r.msgs.len() == 1 && !r.msgs[0].reject && r.msgs[0].index == idx + 1);
    }
    vcover!(true, "done");
    forget(r);
}
