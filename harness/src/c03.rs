//! One real `Raft::step` of a (pre-)vote request from an arbitrary valid state.
//! Serves C03-grant (election restriction), C02-vote1 (one vote per term), C16-pv /
//! C16-lease (pre-vote never disturbs term/vote; in-lease nodes ignore campaigns),
//! C03-cbv (commit by vote) and the C01/C05 frame conditions for this message type.

use crate::inp::Src;
use crate::state::*;
use raft::eraftpb::{Message, MessageType};
use raft::{StateRole, CAMPAIGN_TRANSFER};

/// `mcommit`: concrete m.commit (needed for (pre)candidates and leaders, where the step may
/// scan the newly committed range for membership entries); None = symbolic.
pub fn vote_step(s: &mut Src, sh: &Shape, pre: bool, mcommit: Option<u64>) {
    vote_step_x(s, sh, pre, mcommit, None, false)
}

/// `mterm`: concrete message term (with `sh.fixed_term`); `ct_match`: with a concrete
/// m.commit, m.commit_term is the local term at m.commit (fast-forward succeeds) or 0.
pub fn vote_step_x(s: &mut Src, sh: &Shape, pre: bool, mcommit_c: Option<u64>, mterm_c: Option<u64>, ct_match: bool) {
    let (mut r, g) = mk_raft(s, sh);
    r.priority = s.u64() as i64;
    let t = if pre {
        MessageType::MsgRequestPreVote
    } else {
        MessageType::MsgRequestVote
    };
    let from = 2 + s.below(2) * 3; // 2 (a voter) or 5 (unknown to this node)
    let mt = match mterm_c {
        Some(t) => t,
        None => any_term(s),
    };
    let mut m = msg(t, from, mt);
    vassume!(m.term >= 1); // term 0 marks local messages; peers always stamp a term on (pre)votes
    m.index = s.u64();
    m.log_term = s.u64();
    m.commit = match mcommit_c {
        Some(c) => c,
        None => s.u64(),
    };
    m.commit_term = s.u64();
    if let Some(c) = mcommit_c {
        m.commit_term = if ct_match { g.term_at(c).unwrap_or(0) } else { 0 };
    }
    m.priority = s.u64() as i64;
    m.deprecated_priority = s.u64();
    let transfer = s.bool();
    if transfer {
        m.context = CAMPAIGN_TRANSFER.to_vec();
    }
    // ---- snapshot of the pre-state
    let (term0, vote0, lead0, role0) = (r.term, r.vote, r.leader_id, r.state);
    let (last0, last_term0) = (g.last(), g.last_term());
    let commit0 = g.committed;
    let in_lease = r.check_quorum && lead0 != 0 && r.election_elapsed < ELECTION_TICK;
    let (mterm, mindex, mlogterm, mcommit, mcommit_term) = (m.term, m.index, m.log_term, m.commit, m.commit_term);
    let pv0 = r.verif_private();

    let res = r.step(m);
    assert!(res.is_ok());

    // ---- C06(a): term never decreases
    assert!(r.term >= term0, "term decreased");
    // ---- C16 sentence 1: a pre-vote request never changes term or vote
    if pre {
        assert!(r.term == term0, "pre-vote request changed the term");
        assert!(r.vote == vote0, "pre-vote request changed the vote");
    }
    // ---- C02-vote1: within a term a cast vote is never changed
    if r.term == term0 && vote0 != 0 {
        assert!(r.vote == vote0, "vote changed within a term");
    }
    if r.vote != vote0 && r.vote != 0 {
        assert!(!pre && r.vote == from, "vote moved to someone who did not ask");
    }
    // ---- never becomes leader by being asked for a vote
    if r.state == StateRole::Leader {
        assert!(role0 == StateRole::Leader && r.term == term0, "became leader on a vote request");
    }
    // ---- log untouched
    assert!(r.raft_log.last_index() == last0 && r.raft_log.last_term() == last_term0, "log changed");
    // ---- C03-cbv: commit moves only by the vote-commit rule
    assert!(r.raft_log.committed >= commit0, "commit decreased");
    if r.raft_log.committed > commit0 {
        assert!(r.raft_log.committed == mcommit, "commit moved to something else than m.commit");
        assert!(g.term_at(mcommit) == Some(mcommit_term), "commit by vote without matching term");
        assert!(role0 != StateRole::Leader || r.term > term0, "a leader fast-forwarded commit by vote");
        // C03-cbv / C09: a (pre)candidate that thereby learns of an unapplied membership change
        // stops campaigning (same term)
        let cand0 = role0 == StateRole::Candidate || role0 == StateRole::PreCandidate;
        if cand0 && r.term == term0 && g.conf_entry_in(commit0, mcommit) {
            assert!(r.state == StateRole::Follower, "kept campaigning over an unapplied membership change");
        }
    }
    // ---- C16-lease: an in-lease node ignores higher-term campaigns that are not transfers
    if in_lease && mterm > term0 && !transfer {
        assert!(r.term == term0 && r.vote == vote0 && r.state == role0 && r.leader_id == lead0);
        assert!(r.msgs.is_empty(), "in-lease node answered a disruptive campaign");
        assert!(r.raft_log.committed == commit0);
        assert!(r.verif_private() == pv0);
    }
    // ---- responses
    let mut granted = false;
    let mut k = 0;
    while k < r.msgs.len() {
        let resp = &r.msgs[k];
        let rt = resp.get_msg_type();
        if rt == MessageType::MsgRequestVoteResponse || rt == MessageType::MsgRequestPreVoteResponse {
            assert!(resp.to == from, "vote response addressed to someone else");
            assert!((rt == MessageType::MsgRequestPreVoteResponse) == pre, "wrong response kind");
            if !resp.reject {
                granted = true;
                // C03: election restriction
                assert!(
                    mlogterm > last_term0 || (mlogterm == last_term0 && mindex >= last0),
                    "granted a (pre-)vote to a candidate whose log is behind"
                );
                assert!(resp.term == mterm, "grant carries a term other than the request's");
                if !pre {
                    // a real grant is recorded: one vote per term
                    assert!(r.vote == from && r.term == mterm, "real vote granted but not recorded");
                    assert!(mterm > term0 || vote0 == 0 || vote0 == from, "second vote in a term");
                    assert!(mterm > term0 || vote0 == from || lead0 == 0, "voted although a leader is known for the term");
                } else {
                    assert!(mterm > term0 || vote0 == from || (vote0 == 0 && lead0 == 0), "pre-vote grant without can_vote");
                }
            } else {
                assert!(resp.term == r.term, "rejection must carry the local term");
            }
        } else {
            // lower-term (pre)vote traffic never triggers anything but a pre-vote rejection
            assert!(false, "unexpected message emitted for a vote request");
        }
        k += 1;
    }
    assert!(r.msgs.len() <= 1);
    assert_li(&r);
    if role0 == StateRole::Leader && r.state != StateRole::Leader {
        assert_progress_reset(&r, sh);
    }
    let cand = role0 == StateRole::Candidate || role0 == StateRole::PreCandidate;
    // which events the (possibly concrete) scenario admits
    let rel_hi = match (mterm_c, sh.fixed_term) {
        (Some(m), Some(t)) => m > t,
        _ => true,
    };
    let rel_lo = match (mterm_c, sh.fixed_term) {
        (Some(m), Some(t)) => m < t,
        _ => false,
    };
    let exp_grant = rel_hi; // at equal term a leader / candidate has voted for itself
    let exp_commit = !rel_lo && (mcommit_c.is_none() || ct_match) && !(pre && role0 == StateRole::Leader) && !(role0 == StateRole::Leader && !rel_hi);
    vcover!(!exp_grant || granted, "(pre-)vote granted");
    vcover!(rel_lo && !pre || (r.msgs.len() == 1 && r.msgs[0].reject), "rejected");
    vcover!(cand || !rel_hi || (r.msgs.is_empty() && in_lease && mterm > term0), "ignored in lease");
    vcover!(!exp_commit || r.raft_log.committed > commit0, "commit by vote");
    vcover!(pre || !rel_hi || r.term > term0, "term advanced");
    forget(r);
}
