//! Driver self-test harnesses (not registered in MANIFEST): a deliberately violated
//! assertion whose witness must be extracted and replayed natively.
use crate::inp::Src;

pub fn fail_branchy(s: &mut Src) {
    let a = s.below(100);
    let b = if a > 50 { s.u64() } else { 7 };
    let c = s.below(1000);
    vcover!(a > 50, "branch taken");
    // violated exactly by a in 51..100, b == 0xdead_beef, c == 321
    assert!(!(a > 50 && b == 0xdead_beef && c == 321), "selftest: planted violation");
}

pub fn pass_trivial(s: &mut Src) {
    let a = s.below(10);
    vcover!(a == 3, "three");
    assert!(a < 10);
}
