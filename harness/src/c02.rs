//! C02-lead / C16-pc: a (pre)candidate handling a (pre)vote response.  Leadership is
//! reached only from Candidate, at the same term, by a joint majority of *granted* votes
//! of distinct voters recorded in this term.

use crate::inp::Src;
use crate::oracle::*;
use crate::state::*;
use raft::eraftpb::{Message, MessageType};
use raft::StateRole;

/// votes after recording (from, granted) unless `from` already voted (first answer counts)
fn tally(sh: &Shape, from: u64, granted: bool) -> (bool, bool) {
    // returns (won, lost) for the joint config of the shape
    let verdict = |id: u64| -> Option<bool> {
        let mut i = 0;
        while i < sh.votes.len() {
            if sh.votes[i].0 == id {
                return Some(sh.votes[i].1);
            }
            i += 1;
        }
        if id == from {
            Some(granted)
        } else {
            None
        }
    };
    let half = |set: &[u64]| -> (bool, bool) {
        if set.is_empty() {
            return (true, false);
        }
        let (mut yes, mut missing) = (0, 0);
        let mut i = 0;
        while i < set.len() {
            match verdict(set[i]) {
                Some(true) => yes += 1,
                None => missing += 1,
                _ => {}
            }
            i += 1;
        }
        let q = set.len() / 2 + 1;
        (yes >= q, yes + missing < q)
    };
    let (wi, li) = half(sh.voters);
    let (wo, lo) = half(sh.outgoing);
    (wi && wo, li || lo)
}

/// `resp_pre`: the response is a MsgRequestPreVoteResponse; `mterm`: its (concrete) term;
/// the shape fixes role (Candidate / PreCandidate), term and recorded votes.
pub fn voteresp_step(s: &mut Src, sh: &Shape, from: u64, resp_pre: bool, reject: bool, mterm: u64) {
    let (mut r, g) = mk_raft(s, sh);
    // leftovers of an earlier leadership of this node (C10 / C13: a new term starts afresh)
    let mut pv = r.verif_private();
    pv.uncommitted_size = s.below(1 << 20) as usize;
    pv.last_log_tail_index = s.below(8);
    r.verif_set_private(&pv);
    let t = if resp_pre {
        MessageType::MsgRequestPreVoteResponse
    } else {
        MessageType::MsgRequestVoteResponse
    };
    let mut m = msg(t, from, mterm);
    m.reject = reject;
    let (term0, role0, vote0) = (r.term, r.state, r.vote);
    let res = r.step(m);
    assert!(res.is_ok());
    assert!(r.term >= term0);
    let matching_kind = (role0 == StateRole::PreCandidate) == resp_pre;
    let (won, lost) = tally(sh, from, !reject);
    // C02: leadership only from Candidate, same term, by a won tally of a real-vote response
    if r.state == StateRole::Leader && role0 != StateRole::Leader {
        assert!(role0 == StateRole::Candidate && r.term == term0 && !resp_pre && !reject && mterm == term0, "became leader without winning a real election");
        assert!(won, "became leader without a joint majority of granted votes");
        assert!(r.vote == ME && r.leader_id == ME);
        // leader starts its term with an empty entry and a conservative pending_conf_index
        assert!(r.raft_log.last_index() == g.last() + 1 && r.raft_log.last_term() == term0);
        assert!(r.pending_conf_index == g.last());
        assert!(r.prs().get(ME).unwrap().matched == g.persisted);
        // the uncommitted-size budget starts from zero (the empty entry costs nothing) and the
        // entries inherited from earlier terms - never charged - are exempt from refunds
        let pv1 = r.verif_private();
        assert!(pv1.uncommitted_size == 0, "new leader inherits a stale uncommitted-size count");
        assert!(pv1.last_log_tail_index == g.last(), "refund exemption must cover exactly the inherited log");
        // a new leader knows nothing about what its peers hold
        let (ids, n) = sh.ids();
        let mut i = 0;
        while i < n {
            if ids[i] != ME {
                assert!(r.prs().get(ids[i]).unwrap().matched == 0, "new leader starts with stale acknowledgements");
            }
            i += 1;
        }
        check_leader_msgs(&r, sh);
    } else {
        assert!(r.raft_log.last_index() == g.last());
    }
    if role0 == StateRole::Leader {
        assert!(mterm <= term0 || (resp_pre && !reject), "scenario");
        assert!(r.state == StateRole::Leader && r.term == term0 && r.msgs.is_empty(), "stray (pre)vote response disturbed a leader");
        crate::macros::reached_end();
        forget(r);
        return;
    }
    if mterm < term0 {
        // stale response: ignored before reaching the handler
        assert!(r.state == role0 && r.term == term0 && r.vote == vote0 && r.msgs.is_empty());
    } else if mterm > term0 && !(resp_pre && !reject) {
        // a peer told us of a higher term
        assert!(r.state == StateRole::Follower && r.term == mterm && r.vote == 0);
    } else if !matching_kind {
        assert!(r.state == role0 && r.term == term0 && r.vote == vote0 && r.msgs.is_empty(), "response of the wrong kind had an effect");
    } else if won {
        if role0 == StateRole::Candidate {
            assert!(r.state == StateRole::Leader);
        } else {
            // C16-pc: a pre-candidate raises its term only after winning the pre-vote
            assert!(r.state == StateRole::Candidate && r.term == term0 + 1 && r.vote == ME, "pre-vote won -> real election");
            let mut k = 0;
            while k < r.msgs.len() {
                let q = &r.msgs[k];
                assert!(q.get_msg_type() == MessageType::MsgRequestVote && q.term == term0 + 1);
                assert!(q.index == g.last() && q.log_term == g.last_term());
                assert!(q.to != ME && sh.is_voter(q.to));
                k += 1;
            }
        }
    } else if lost {
        assert!(r.state == StateRole::Follower && r.term == term0 && r.leader_id == 0, "lost election must fall back to follower at the same term");
        assert!(r.vote == vote0);
    } else {
        assert!(r.state == role0 && r.term == term0 && r.vote == vote0 && r.msgs.is_empty(), "pending election changed state");
    }
    // C16-pc: a pre-candidate never raises its own term unless told of a higher one or it won
    if role0 == StateRole::PreCandidate && r.term > term0 {
        assert!((won && matching_kind && mterm >= term0) || (mterm > term0 && !(resp_pre && !reject)), "pre-candidate raised its term");
    }
    crate::macros::reached_end();
    forget(r);
}

#[inline(never)]
pub fn marker_a() -> u32 { let mut i = 0; let mut x = 0; while i < 3 { x += i; i += 1; } x }
#[inline(never)]
pub fn marker_b() -> u32 { let mut i = 0; let mut x = 0; while i < 3 { x += i; i += 1; } x }
#[inline(never)]
pub fn marker_c() -> u32 { let mut i = 0; let mut x = 0; while i < 3 { x += i; i += 1; } x }

pub fn dbg_tally(s: &mut Src, sh: &Shape) {
    let (r, g) = mk_raft(s, sh);
    let (gr, rj, res) = r.prs().tally_votes();
    if gr != 1 {
        assert!(marker_a() == 3);
    }
    if rj != 0 {
        assert!(marker_b() == 3);
    }
    if res != raft::verif_export::VoteResult::Pending {
        assert!(marker_c() == 3);
    }
    forget(r);
}

pub fn dbg_map(_s: &mut Src) {
    use raft::verif_export::{HashMap, HashSet};
    let mut vs: [Option<(u64, bool)>; CAP] = [None; CAP];
    vs[0] = Some((1, true));
    let m: HashMap<u64, bool> = HashMap::verif_from_slots(vs);
    if m.get(&1) != Some(&true) {
        assert!(marker_a() == 3);
    }
    if m.get(&2).is_some() {
        assert!(marker_b() == 3);
    }
    let st = set_of(&[1, 2, 3]);
    if !st.contains(&2) || st.contains(&4) {
        assert!(marker_c() == 3);
    }
}
pub fn dbg_map2(_s: &mut Src) {
    use raft::verif_export::{HashMap, HashSet};
    let mut vs: [Option<(u64, bool)>; CAP] = [None; CAP];
    vs[0] = Some((1, true));
    let m: HashMap<u64, bool> = HashMap::verif_from_slots(vs);
    let mut cnt = 0;
    for (id, v) in &m {
        if *v {
            cnt += 1;
        }
    }
    if cnt != 1 {
        assert!(marker_a() == 3);
    }
    let st = set_of(&[1, 2, 3]);
    let mut n = 0;
    for id in st.iter() {
        n += 1;
    }
    if n != 3 {
        assert!(marker_b() == 3);
    }
}

pub fn dbg_rec(s: &mut Src, sh: &Shape) {
    let (mut r, g) = mk_raft(s, sh);
    r.mut_prs().record_vote(2, true);
    let (gr, rj, res) = r.prs().tally_votes();
    if gr != 2 {
        assert!(marker_a() == 3);
    }
    if rj != 0 {
        assert!(marker_b() == 3);
    }
    if res != raft::verif_export::VoteResult::Pending {
        assert!(marker_c() == 3);
    }
    forget(r);
}

/// [2N] Two real nodes: node A campaigns, its real MsgRequestVote is stepped into node B, B's
/// real response into A, A's first append into B.  Checks the assume/guarantee glue between
/// the per-step obligations on the *actual* message values (C02 / C03 / C05 / C17-completion).
/// `b_ahead`: B's log is longer than A's (then B must refuse and A must not lead).
pub fn two_node_election(s: &mut Src, sh_a: &Shape, sh_b: &Shape, b_ahead: bool, transfer: bool) {
    let (mut a, ga) = mk_raft(s, sh_a);
    let (mut b, gb) = mk_raft(s, sh_b);
    // B is node 2 in A's world: re-label by addressing only
    let term0 = a.term;
    if transfer {
        let m = msg(MessageType::MsgTimeoutNow, 3, term0);
        let _ = a.step(m);
    } else {
        let _ = a.step(msg(MessageType::MsgHup, 0, 0));
    }
    assert!(a.state == StateRole::Candidate && a.term == term0 + 1 && a.vote == ME);
    // the request addressed to node 2
    let mut req = None;
    let mut k = 0;
    while k < a.msgs.len() {
        if a.msgs[k].to == 2 {
            req = Some(a.msgs[k].clone());
        }
        k += 1;
    }
    let mut req = req.unwrap();
    assert!(req.get_msg_type() == MessageType::MsgRequestVote && req.from == ME && req.term == term0 + 1);
    a.msgs.clear();
    // deliver to B (B sees itself as ME = 1 in its own state; only `from` matters to it: use id 2 <-> peer)
    req.to = ME;
    req.from = 2;
    let bterm0 = b.term;
    let res = b.step(req);
    assert!(res.is_ok());
    assert!(b.msgs.len() == 1);
    let mut resp = b.msgs[0].clone();
    assert!(resp.get_msg_type() == MessageType::MsgRequestVoteResponse && resp.to == 2);
    let granted = !resp.reject;
    // election restriction on the real values
    let a_up_to_date = ga.last_term() > gb.last_term() || (ga.last_term() == gb.last_term() && ga.last() >= gb.last());
    assert!(!granted || a_up_to_date, "B granted although A's log is behind");
    if b_ahead {
        assert!(!granted);
    }
    if granted {
        assert!(b.vote == 2 && b.term == term0 + 1);
    }
    b.msgs.clear();
    // deliver the response to A
    resp.to = ME;
    resp.from = 2;
    let res = a.step(resp);
    assert!(res.is_ok());
    if granted {
        assert!(a.state == StateRole::Leader && a.term == term0 + 1, "a majority (self + 1 of 3) granted");
        // one leader per term between the two of them
        assert!(!(b.state == StateRole::Leader && b.term == a.term));
        // A's first append to node 2, delivered to B, is accepted and makes B's log equal A's
        let mut ap = None;
        let mut k = 0;
        while k < a.msgs.len() {
            if a.msgs[k].to == 2 && a.msgs[k].get_msg_type() == MessageType::MsgAppend {
                ap = Some(a.msgs[k].clone());
            }
            k += 1;
        }
        let mut ap = ap.unwrap();
        ap.to = ME;
        ap.from = 2;
        let res = b.step(ap);
        assert!(res.is_ok());
        assert!(b.state == StateRole::Follower && b.leader_id == 2 && b.term == a.term);
        assert!(b.msgs.len() == 1 && b.msgs[0].get_msg_type() == MessageType::MsgAppendResponse);
        if !b.msgs[0].reject {
            let upto = b.msgs[0].index;
            let mut i = 1;
            while i <= upto {
                assert!(b.raft_log.term(i).ok() == a.raft_log.term(i).ok(), "logs differ below an acknowledged index");
                i += 1;
            }
        }
    } else {
        assert!(a.state != StateRole::Leader, "A leads without a granted vote");
    }
    vcover!(granted || b_ahead, "granted");
    forget(a);
    forget(b);
}
