//! assume / cover / harness-declaration glue for Kani and native replay.

#[cfg(kani)]
#[inline(always)]
pub fn assume(c: bool) {
    kani::assume(c);
}

/// Natively an unsatisfied assumption means the witness does not belong to the
/// harness (bad trace extraction): exit code 3 = "not reproduced".
#[cfg(not(kani))]
#[inline(always)]
pub fn assume(c: bool) {
    if !c {
        eprintln!("REPLAY: assumption violated - witness does not satisfy the harness preconditions");
        std::process::exit(3);
    }
}

/// Reachability witness (vacuity guard).  Under Kani a `cover!`; natively a no-op.
#[macro_export]
macro_rules! vcover {
    ($c:expr, $msg:literal) => {{
        #[cfg(kani)]
        kani::cover!($c, $msg);
        #[cfg(not(kani))]
        {
            let _ = $c;
        }
    }};
}

#[macro_export]
macro_rules! vassume {
    ($c:expr) => {
        $crate::macros::assume($c)
    };
}

// ---- Kani stubs (formatting only) -------------------------------------------------
pub fn stub_format(_a: std::fmt::Arguments<'_>) -> String {
    String::new()
}
pub fn stub_write(_o: &mut dyn std::fmt::Write, _a: std::fmt::Arguments<'_>) -> std::fmt::Result {
    Ok(())
}

/// Declares harnesses: generates one `#[kani::proof]` per entry and the native
/// registry used by `replay`.
#[macro_export]
macro_rules! harnesses {
    ($( { $name:ident, $prop:literal, $tier:ident, unwind = $u:literal, $desc:literal, $f:expr } )*) => {
        $(
            #[cfg(kani)]
            #[kani::proof]
            #[kani::unwind($u)]
            #[kani::stub(std::fmt::format, $crate::macros::stub_format)]
            #[kani::stub(std::fmt::write, $crate::macros::stub_write)]
            pub fn $name() {
                let mut s = $crate::inp::Src::symbolic();
                let f: fn(&mut $crate::inp::Src) = $f;
                f(&mut s);
            }
        )*

        pub struct HarnessInfo {
            pub name: &'static str,
            pub prop: &'static str,
            pub tier: &'static str,
            pub unwind: u32,
            pub desc: &'static str,
            pub run: fn(&mut $crate::inp::Src),
        }

        pub fn all() -> Vec<HarnessInfo> {
            vec![
                $( HarnessInfo { name: stringify!($name), prop: $prop, tier: stringify!($tier), unwind: $u, desc: $desc, run: $f }, )*
            ]
        }
    };
}
