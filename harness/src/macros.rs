//! assume / cover / harness-declaration glue for Kani and native replay.

#[cfg(kani)]
#[inline(always)]
pub fn assume(c: bool) {
    kani::assume(c);
}

/// Natively an unsatisfied assumption means the witness does not belong to the
/// harness (bad trace extraction): exit code 3 = "not reproduced".
#[cfg(not(kani))]
#[inline(always)]
pub fn assume(c: bool) {
    if !c {
        eprintln!("REPLAY: assumption violated - witness does not satisfy the harness preconditions");
        std::process::exit(3);
    }
}

/// Reachability witness (vacuity guard).  Under Kani a `cover!`; natively a no-op.
#[macro_export]
macro_rules! vcover {
    ($c:expr, $msg:literal) => {{
        #[cfg(kani)]
        kani::cover!($c, $msg);
        #[cfg(not(kani))]
        {
            let _ = $c;
        }
    }};
}

#[macro_export]
macro_rules! vassume {
    ($c:expr) => {
        $crate::macros::assume($c)
    };
}

/// One shared reachability witness for harnesses with several exits (a cover is a property per
/// source location; calling this from every exit makes it one property).
#[inline(never)]
pub fn reached_end() {
    vcover!(true, "harness ran to one of its ends");
}

// ---- Kani stubs (formatting only) -------------------------------------------------
pub fn stub_format(_a: std::fmt::Arguments<'_>) -> String {
    String::new()
}
pub fn stub_write(_o: &mut dyn std::fmt::Write, _a: std::fmt::Arguments<'_>) -> std::fmt::Result {
    Ok(())
}

/// Contract stub for `ProgressTracker::maximal_committed_index` (group commit off): the
/// largest index acknowledged by a majority of each non-empty half, computed by counting
/// instead of the implementation's `MaybeUninit` array + `sort_by` (values moved through raw
/// pointers do not constant-propagate in CBMC, which makes every later vector length
/// symbolic).  The real function is checked against the same counting oracle for all inputs in
/// the C11 harnesses; Raft-level leader harnesses use this stub (listed in the evidence).
pub fn stub_mci(prs: &mut raft::ProgressTracker) -> (u64, bool) {
    assert!(!prs.group_commit(), "stub_mci models plain quorum commit only");
    let (inc, out) = prs.conf().voters().verif_halves();
    if inc.is_empty() && out.is_empty() {
        return (u64::MAX, true);
    }
    let ok = |v: u64| -> bool {
        let mut good = true;
        for half in [inc, out] {
            if half.is_empty() {
                continue;
            }
            let mut c = 0usize;
            for id in half.iter() {
                let m = prs.get(*id).map_or(0, |p| p.matched);
                if m >= v {
                    c += 1;
                }
            }
            if c < half.len() / 2 + 1 {
                good = false;
            }
        }
        good
    };
    let mut best = 0u64;
    for (_, p) in prs.iter() {
        if p.matched > best && ok(p.matched) {
            best = p.matched;
        }
    }
    (best, false)
}

/// Emits the `#[kani::proof]` wrapper.  `[]` = with the `stub_mci` contract stub (Raft-level
/// harnesses), `[nostub]` = the real `maximal_committed_index` (C11 checks it against the oracle).
#[macro_export]
macro_rules! emit_proof {
    ([] $name:ident, $u:literal, $f:expr) => {
        #[cfg(kani)]
        #[kani::proof]
        #[kani::unwind($u)]
        #[kani::stub(std::fmt::format, $crate::macros::stub_format)]
        #[kani::stub(std::fmt::write, $crate::macros::stub_write)]
        #[kani::stub(raft::ProgressTracker::maximal_committed_index, $crate::macros::stub_mci)]
        pub fn $name() {
            let mut s = $crate::inp::Src::symbolic();
            let f: fn(&mut $crate::inp::Src) = $f;
            f(&mut s);
        }
    };
    ([nostub] $name:ident, $u:literal, $f:expr) => {
        #[cfg(kani)]
        #[kani::proof]
        #[kani::unwind($u)]
        #[kani::stub(std::fmt::format, $crate::macros::stub_format)]
        #[kani::stub(std::fmt::write, $crate::macros::stub_write)]
        pub fn $name() {
            let mut s = $crate::inp::Src::symbolic();
            let f: fn(&mut $crate::inp::Src) = $f;
            f(&mut s);
        }
    };
}

/// Declares harnesses: generates one `#[kani::proof]` per entry and the native
/// registry used by `replay`.  `{ @nostub name, ... }` omits the contract stub.
#[macro_export]
macro_rules! harnesses {
    ($( { $(@$mode:ident)? $name:ident, $prop:literal, $tier:ident, unwind = $u:literal, $desc:literal, $f:expr } )*) => {
        $(
            $crate::emit_proof!([$($mode)?] $name, $u, $f);
        )*

        pub struct HarnessInfo {
            pub name: &'static str,
            pub prop: &'static str,
            pub tier: &'static str,
            pub unwind: u32,
            pub desc: &'static str,
            pub run: fn(&mut $crate::inp::Src),
        }

        pub fn all() -> Vec<HarnessInfo> {
            vec![
                $( HarnessInfo { name: stringify!($name), prop: $prop, tier: stringify!($tier), unwind: $u, desc: $desc, run: $f }, )*
            ]
        }
    };
}
