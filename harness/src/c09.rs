//! C09 - membership discipline: campaign gating (hup / timeout / MsgTimeoutNow), proposal
//! filtering, auto-leave.

use crate::inp::Src;
use crate::state::*;
use raft::eraftpb::{Message, MessageType};
use raft::StateRole;

/// kind: 0 = MsgHup (local campaign request), 1 = MsgTimeoutNow from the leader,
/// 2 = tick() until the election timeout fires.
/// The shape fixes applied / commit / entry types (the step scans (applied, commit]).
pub fn hup_step(s: &mut Src, sh: &Shape, kind: u8) {
    hup_step_paged(s, sh, kind, None)
}

/// `page`: Some(limit) sets `max_committed_size_per_ready`, which pages the scan of the
/// unapplied committed entries (limit 0 = one entry per page).
pub fn hup_step_paged(s: &mut Src, sh: &Shape, kind: u8, page: Option<u64>) {
    let (mut r, g) = mk_raft(s, sh);
    if let Some(p) = page {
        r.set_max_committed_size_per_ready(p);
    }
    let (term0, role0, vote0) = (r.term, r.state, r.vote);
    let pv0 = r.verif_private();
    let pending = g.conf_entry_in(g.applied, g.committed);
    let promotable = pv0.promotable;
    let mut fired = true;
    match kind {
        0 => {
            let m = msg(MessageType::MsgHup, 0, 0);
            let _ = r.step(m);
        }
        1 => {
            let m = msg(MessageType::MsgTimeoutNow, 2, term0);
            vassume!(term0 >= 1);
            let _ = r.step(m);
        }
        _ => {
            // one tick; fires iff it reaches the randomized timeout
            fired = r.election_elapsed + 1 >= pv0.randomized_election_timeout;
            r.tick();
        }
    }
    assert!(r.term >= term0);
    let campaigned = r.state != role0 || r.term != term0 || !r.msgs.is_empty();
    if role0 != StateRole::Leader {
        // C09: no election while a committed membership change is unapplied
        if pending {
            assert!(r.state == role0 && r.term == term0 && r.vote == vote0, "campaigned over an unapplied membership change");
            let mut k = 0;
            while k < r.msgs.len() {
                let t = r.msgs[k].get_msg_type();
                assert!(t != MessageType::MsgRequestVote && t != MessageType::MsgRequestPreVote);
                k += 1;
            }
        }
        // C09: a non-voter never starts an election by timeout or transfer request
        if !promotable && kind != 0 {
            assert!(!campaigned, "non-promotable node campaigned");
        }
        if !fired {
            assert!(!campaigned, "campaigned before the election timeout");
        }
        // C17 target side: a transfer request never uses pre-vote
        if kind == 1 && r.state != role0 {
            assert!(r.state == StateRole::Candidate && r.term == term0 + 1, "transfer must go straight to a real election");
        }
        // every vote request carries the node's true last (index, term) and commit (C03-camp)
        let mut k = 0;
        while k < r.msgs.len() {
            let m = &r.msgs[k];
            let t = m.get_msg_type();
            if t == MessageType::MsgRequestVote || t == MessageType::MsgRequestPreVote {
                assert!(m.index == g.last() && m.log_term == g.last_term(), "vote request misreports the log");
                assert!(m.commit == g.committed && Some(m.commit_term) == g.term_at(g.committed));
                assert!(m.to != ME && sh.is_voter(m.to), "vote request to a non-voter");
                if t == MessageType::MsgRequestVote {
                    assert!(m.term == r.term && r.term == term0 + 1 && r.vote == ME);
                    assert!((m.context.len() == 16) == (kind == 1));
                } else {
                    assert!(m.term == term0 + 1 && r.term == term0 && r.vote == vote0);
                }
            }
            k += 1;
        }
    } else {
        assert!(r.state == StateRole::Leader || kind == 2, "leader left office on a campaign request");
    }
    vcover!(campaigned || pending || !promotable, "campaign started");
    vcover!(!pending || !campaigned, "blocked by pending membership change");
    forget(r);
}
