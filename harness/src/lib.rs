//! Solver-based checks of tikv/raft-rs (see /verif/DESIGN.md).
//!
//! Every harness is an ordinary function `fn(&mut Src)`; all nondeterminism is
//! drawn from `Src`.  Under Kani, `Src` is one symbolic `[u64; N]`; natively
//! (`src/bin/replay.rs`) it is a concrete vector parsed from a CBMC trace, so
//! the same body replays a counterexample against the real build.
#![allow(clippy::all)]
#![allow(dead_code, unused_imports, unused_macros, unused_variables)]

pub mod inp;
#[macro_use]
pub mod macros;

pub mod state;
pub mod vstore;

pub mod oracle;
pub mod c02;
pub mod c03;
pub mod c04;
pub mod c05;
pub mod c08;
pub mod c09;
pub mod c11;
pub mod c12;
pub mod c13;
pub mod c14;
pub mod c15;
pub mod c18;
pub mod c19;
pub mod rawnode;
pub mod selftest;

pub mod registry;
