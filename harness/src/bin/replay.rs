//! Native replay of a solver counterexample / listing of the harness registry.
//!
//!   replay --list                      JSON list of harnesses
//!   replay <harness> <v0> <v1> ...     run the harness body on concrete inputs
//!   replay --file <path.json>          same, from a replay file written by ../check
use raft_verif::inp::Src;
use raft_verif::registry;

fn json_escape(s: &str) -> String {
    s.replace('\\', "\\\\").replace('"', "\\\"")
}

fn main() {
    let args: Vec<String> = std::env::args().skip(1).collect();
    if args.first().map(|s| s.as_str()) == Some("--list") {
        let all = registry::all();
        println!("[");
        for (i, h) in all.iter().enumerate() {
            println!(
                "  {{\"name\": \"{}\", \"prop\": \"{}\", \"tier\": \"{}\", \"unwind\": {}, \"desc\": \"{}\"}}{}",
                h.name,
                h.prop,
                h.tier,
                h.unwind,
                json_escape(h.desc),
                if i + 1 < all.len() { "," } else { "" }
            );
        }
        println!("]");
        return;
    }
    let (name, vals): (String, Vec<u64>) = if args.first().map(|s| s.as_str()) == Some("--file") {
        let txt = std::fs::read_to_string(&args[1]).expect("read replay file");
        // minimal parser: "harness": "<name>", "inputs": [ ... ]
        let name = txt
            .split("\"harness\"")
            .nth(1)
            .and_then(|r| r.split('"').nth(1))
            .expect("harness field")
            .to_string();
        let arr = txt
            .split("\"inputs\"")
            .nth(1)
            .and_then(|r| r.split('[').nth(1))
            .and_then(|r| r.split(']').next())
            .expect("inputs field");
        let vals = arr
            .split(',')
            .filter_map(|t| t.trim().parse::<u64>().ok())
            .collect();
        (name, vals)
    } else {
        let name = args.first().expect("harness name").clone();
        let vals = args[1..].iter().map(|t| t.parse::<u64>().expect("u64")).collect();
        (name, vals)
    };
    let all = registry::all();
    let h = all.iter().find(|h| h.name == name).unwrap_or_else(|| {
        eprintln!("unknown harness {name}");
        std::process::exit(4);
    });
    let mut src = Src::from_vec(vals);
    (h.run)(&mut src);
    println!("REPLAY: harness {} completed without violation ({} inputs consumed)", name, src.consumed());
}
