//! C14 - RaftLog (stable storage + unstable suffix + pending snapshot) behaves as one
//! logical log.  Real `RaftLog<VStore>`; reference model = `(base, snap_term, [terms])`
//! plus three cursors, kept in harness arrays (`Ghost`).

use crate::inp::Src;
use crate::state::*;
use crate::vstore::{VStore, LMAX};
use raft::eraftpb::{Entry, Snapshot, SnapshotMetadata};
use raft::{Config, GetEntriesContext, RaftLog, Storage, NO_LIMIT};

/// Log shape: `n_stable` entries in storage, `n_unstable` behind them, `overlap` of the
/// unstable entries shadow (stale) storage entries that the application has not yet
/// overwritten.  Terms: concrete pattern if given, else symbolic non-decreasing.
#[derive(Clone, Copy)]
pub struct LogShape {
    pub base: u64,
    pub n_stable: usize,
    pub n_unstable: usize,
    pub terms: &'static [u64],
}

pub fn mk_log(s: &mut Src, sh: &LogShape) -> (RaftLog<VStore>, Ghost) {
    let n = sh.n_stable + sh.n_unstable;
    let fixed = !sh.terms.is_empty();
    let foff = if sh.base == 0 { 0 } else { 1 };
    let snap_term = if sh.base == 0 {
        0
    } else if fixed {
        sh.terms[0]
    } else {
        let t = s.u64();
        vassume!(t >= 1 && t < TERM_MAX);
        t
    };
    let mut terms = [0u64; LMAX];
    let mut prev = snap_term;
    let mut i = 0;
    while i < n {
        let t = if fixed { sh.terms[i + foff] } else { s.u64() };
        vassume!(t >= prev && t >= 1 && t < TERM_MAX);
        terms[i] = t;
        prev = t;
        i += 1;
    }
    let mut store = VStore::new(sh.base, snap_term);
    i = 0;
    while i < sh.n_stable {
        store.push(terms[i]);
        i += 1;
    }
    let cfg = Config::new(ME);
    let mut log = RaftLog::new(store, logger(), &cfg);
    let mut v = Vec::with_capacity(LMAX);
    i = sh.n_stable;
    while i < n {
        let mut e = Entry::default();
        e.index = sh.base + 1 + i as u64;
        e.term = terms[i];
        log.unstable.entries_size += raft::util::entry_approximate_size(&e);
        v.push(e);
        i += 1;
    }
    log.unstable.entries = v;
    let stable_last = sh.base + sh.n_stable as u64;
    let last = sh.base + n as u64;
    let persisted = s.u64();
    let committed = s.u64();
    let applied = s.u64();
    vassume!(persisted >= sh.base && persisted <= stable_last);
    vassume!(committed >= sh.base && committed <= last);
    vassume!(applied >= sh.base && applied <= committed);
    log.persisted = persisted;
    log.committed = committed;
    log.applied = applied;
    let g = Ghost {
        term: prev,
        base: sh.base,
        snap_term,
        terms,
        etype: [0; LMAX],
        n,
        committed,
        applied,
        persisted,
    };
    (log, g)
}

/// every query answers like the sequence model
pub fn check_queries(log: &RaftLog<VStore>, g: &Ghost) {
    assert!(log.first_index() == g.base + 1, "first_index");
    assert!(log.last_index() == g.last(), "last_index");
    assert!(log.last_term() == g.last_term(), "last_term");
    let mut i = if g.base == 0 { 0 } else { g.base - 1 };
    while i <= g.last() + 1 {
        let exp = g.term_at(i).unwrap_or(0);
        assert!(log.term(i).ok() == Some(exp), "term(i)");
        i += 1;
    }
}

fn ment(idx: u64, term: u64, ety: i32) -> Entry {
    let mut e = Entry::default();
    e.index = idx;
    e.term = term;
    e.entry_type = ety;
    e
}

/// maybe_append with a concrete term pattern (message prev term / entry terms) from an
/// arbitrary cursor state; all positions of the first conflict relative to
/// offset / persisted / committed arise from the symbolic cursors.
pub fn maybe_append(s: &mut Src, sh: &LogShape, idx_off: u64, mlog: u64, mterms: &[u64], want_conflict: bool) {
    let (mut log, g) = mk_log(s, sh);
    let idx = sh.base + idx_off;
    let n = mterms.len();
    let mcommit = s.u64();
    let mut ents = Vec::with_capacity(3);
    let mut j = 0;
    while j < n {
        let e = ment(idx + 1 + j as u64, mterms[j], 0);
        // precondition (documented panic otherwise): no conflict at or below commit
        if e.index <= g.committed {
            vassume!(g.term_at(e.index) == Some(e.term));
        }
        ents.push(e);
        j += 1;
    }
    let res = log.maybe_append(idx, mlog, mcommit, &ents);
    let matched = g.term_at(idx) == Some(mlog);
    assert!(res.is_some() == matched, "accept iff prev (index, term) is in the log");
    let mut g2 = g;
    let mut targeted = !matched;
    if matched {
        let mut conflict = 0u64;
        j = 0;
        while j < n {
            let i = idx + 1 + j as u64;
            if conflict == 0 && g.term_at(i) != Some(mterms[j]) {
                conflict = i;
            }
            j += 1;
        }
        let (c, l) = res.unwrap();
        assert!(c == conflict, "conflict index");
        assert!(l == idx + n as u64, "last new index");
        if conflict != 0 {
            // model: truncate at conflict, append the rest
            let k0 = (conflict - g.base - 1) as usize;
            g2.n = k0;
            j = (conflict - idx - 1) as usize;
            while j < n {
                g2.terms[g2.n] = mterms[j];
                g2.n += 1;
                j += 1;
            }
            if g2.persisted > conflict - 1 {
                g2.persisted = conflict - 1;
            }
            assert!(log.unstable.offset <= conflict);
        }
        let cap = if mcommit < l { mcommit } else { l };
        if cap > g2.committed {
            g2.committed = cap;
        }
        targeted = (conflict != 0) == want_conflict;
    }
    vcover!(targeted, "the case this pattern targets");
    assert!(log.committed == g2.committed, "committed");
    assert!(log.persisted == g2.persisted, "persisted");
    assert!(log.applied == g2.applied, "applied");
    check_queries(&log, &g2);
    // nothing at or below the (old) commit index changed
    let mut i = g.base;
    while i <= g.committed {
        assert!(log.term(i).ok() == g.term_at(i), "committed entry altered");
        i += 1;
    }
    forget(log);
    forget(ents);
}

pub fn dbg1(s: &mut Src, sh: &LogShape) {
    let (log, g) = mk_log(s, sh);
    assert!(log.match_term(1, 1));
    assert!(log.match_term(2, 2));
    assert!(log.match_term(3, 3));
    forget(log);
}
pub fn dbg2(s: &mut Src, sh: &LogShape) {
    let (log, g) = mk_log(s, sh);
    let mut ents = Vec::with_capacity(3);
    ents.push(ment(2, 2, 0));
    ents.push(ment(3, 3, 0));
    let c = log.find_conflict(&ents);
    assert!(c == 0);
    forget(log);
    forget(ents);
}

pub fn dbg3(s: &mut Src, sh: &LogShape) {
    let (mut log, g) = mk_log(s, sh);
    let mut ents = Vec::with_capacity(3);
    ents.push(ment(2, 2, 0));
    ents.push(ment(3, 3, 0));
    let res = log.maybe_append(1, 1, 0, &ents);
    assert!(res.is_some());
    forget(log);
    forget(ents);
}
pub fn dbg4(s: &mut Src, sh: &LogShape) {
    let (mut log, g) = mk_log(s, sh);
    let mut ents = Vec::with_capacity(3);
    ents.push(ment(2, 2, 0));
    ents.push(ment(3, 3, 0));
    let c = log.find_conflict(&ents);
    if c != 0 {
        // reachable only if find_conflict did not fold
        let st = (c - 2) as usize;
        assert!(st < 2);
        log.append(&ents[st..]);
    }
    forget(log);
    forget(ents);
}

pub fn dbg_a(_s: &mut Src) {
    let mut v = Vec::with_capacity(3);
    v.push(ment(2, 2, 0));
    v.push(ment(3, 3, 0));
    let mut sum = 0;
    let mut cnt = 0;
    for e in v.iter() {
        sum += e.term;
        cnt += 1;
    }
    assert!(sum == 5);
    assert!(cnt == 2);
    forget(v);
}
pub fn dbg_b(_s: &mut Src) {
    let mut v = Vec::with_capacity(3);
    v.push(ment(2, 2, 0));
    v.push(ment(3, 3, 0));
    let mut sum = 0;
    let mut i = 0;
    while i < v.len() {
        sum += v[i].term;
        i += 1;
    }
    assert!(sum == 5);
    forget(v);
}
pub fn dbg_c(_s: &mut Src) {
    let v = [ment(2, 2, 0), ment(3, 3, 0)];
    let mut sum = 0;
    let mut cnt = 0;
    for e in v.iter() {
        sum += e.term;
        cnt += 1;
    }
    assert!(sum == 5);
    assert!(cnt == 2);
    forget(v);
}

pub fn dbg_d(s: &mut Src, sh: &LogShape) {
    let (log, g) = mk_log(s, sh);
    let mut v = Vec::with_capacity(3);
    v.push(ment(2, 2, 0));
    v.push(ment(3, 3, 0));
    let mut sum = 0;
    for e in v.iter() {
        sum += e.term + e.index;
    }
    assert!(sum == 10);
    forget(v);
    forget(log);
}
pub fn dbg_e(s: &mut Src, sh: &LogShape) {
    let (log, g) = mk_log(s, sh);
    let mut v = Vec::with_capacity(3);
    v.push(ment(2, 2, 0));
    v.push(ment(3, 3, 0));
    let mut ok = true;
    for e in v.iter() {
        ok &= log.match_term(e.index, e.term);
    }
    assert!(ok);
    forget(v);
    forget(log);
}
pub fn dbg_f(s: &mut Src, sh: &LogShape) {
    let (log, g) = mk_log(s, sh);
    let mut v = Vec::with_capacity(3);
    v.push(ment(2, 2, 0));
    v.push(ment(3, 3, 0));
    let mut ok = true;
    for e in v.iter() {
        if !log.match_term(e.index, e.term) {
            ok = false;
            break;
        }
    }
    assert!(ok);
    forget(v);
    forget(log);
}

// =====================================================================================
// further RaftLog operations against the sequence model

/// Pure queries with symbolic arguments: term, match_term, find_conflict_by_term,
/// is_up_to_date, has_next_entries_since on an arbitrary cursor state.
pub fn queries(s: &mut Src, sh: &LogShape) {
    let (log, g) = mk_log(s, sh);
    check_queries(&log, &g);
    let i = s.u64();
    let t = s.u64();
    // term / match_term
    vassume!(i < u64::MAX - 1);
    if i >= g.base && i <= g.last() {
        assert!(log.term(i).ok() == g.term_at(i), "term(i) inside the log");
        assert!(log.match_term(i, t) == (g.term_at(i) == Some(t)), "match_term");
    } else if i > g.last() {
        assert!(log.term(i).ok() == Some(0) && !log.match_term(i, t) || t == 0, "term beyond the log is 0");
    }
    // is_up_to_date
    let up = t > g.last_term() || (t == g.last_term() && i >= g.last());
    assert!(log.is_up_to_date(i, t) == up, "is_up_to_date");
    // find_conflict_by_term: largest j <= i with term(j) <= t (model walks back to the snapshot point)
    if i <= g.last() && i >= g.base {
        let (j, jt) = log.find_conflict_by_term(i, t);
        let mut k = i;
        let mut found = None;
        loop {
            let tk = g.term_at(k).unwrap();
            if tk <= t {
                found = Some((k, tk));
                break;
            }
            if k == g.base {
                break;
            }
            k -= 1;
        }
        match found {
            Some((k, tk)) => assert!(j == k && jt == Some(tk), "find_conflict_by_term"),
            None => assert!(j + 1 == g.base && jt == Some(0), "find_conflict_by_term below the snapshot point"),
        }
    } else if i > g.last() {
        let (j, jt) = log.find_conflict_by_term(i, t);
        assert!(j == i && jt.is_none(), "find_conflict_by_term beyond the log");
    }
    // has_next_entries_since(k)  <=>  some index in (max(k, first-1), min(committed, persisted)] exists
    let k = s.u64();
    vassume!(k < u64::MAX);
    let lo = if k + 1 > g.base + 1 { k + 1 } else { g.base + 1 };
    let hi = if g.committed < g.persisted { g.committed } else { g.persisted };
    assert!(log.has_next_entries_since(k) == (hi >= lo), "has_next_entries_since");
    vcover!(i > g.base && i < g.last(), "index inside the log");
    forget(log);
}

/// Cursor operations with symbolic arguments: commit_to / maybe_commit / maybe_persist /
/// maybe_persist_snap / applied_to within their documented preconditions.
pub fn cursors(s: &mut Src, sh: &LogShape) {
    let (mut log, g) = mk_log(s, sh);
    let i = s.u64();
    let t = s.u64();
    let op = s.below(4);
    let mut g2 = g;
    if op == 0 {
        // maybe_commit(i, t): only if i > committed and the local term at i equals t
        // (beyond the log term(i) reads as 0: real terms are >= 1)
        vassume!(t >= 1);
        let r = log.maybe_commit(i, t);
        let ok = i > g.committed && i <= g.last() && g.term_at(i) == Some(t);
        assert!(r == ok, "maybe_commit");
        if ok {
            g2.committed = i;
        }
    } else if op == 1 {
        // commit_to(i), documented panic if i > last
        vassume!(i <= g.last());
        log.commit_to(i);
        if i > g.committed {
            g2.committed = i;
        }
    } else if op == 2 {
        // maybe_persist(i, t): only entries the store really holds with that term, below the unstable suffix
        let r = log.maybe_persist(i, t);
        let stable_last = g.base + sh.n_stable as u64;
        let ok = i > g.persisted && i <= stable_last && g.term_at(i) == Some(t);
        assert!(r == ok, "maybe_persist");
        if ok {
            g2.persisted = i;
        }
    } else {
        // applied_to(i) for applied <= i <= committed
        vassume!(i >= g.applied && i <= g.committed);
        #[allow(deprecated)]
        log.applied_to(i);
        if i > 0 {
            g2.applied = i;
        }
    }
    assert!(log.committed == g2.committed && log.persisted == g2.persisted && log.applied == g2.applied, "cursors after the operation");
    assert!(log.applied <= log.committed && log.committed <= log.last_index(), "applied <= committed <= last");
    assert!(log.persisted <= g.base + sh.n_stable as u64, "persisted beyond what stable storage holds");
    check_queries(&log, &g2);
    vcover!(log.committed > g.committed, "commit advanced");
    vcover!(log.persisted > g.persisted, "persisted advanced");
    forget(log);
}

/// slice with a size limit: the result is the maximal non-empty prefix of the requested range
/// that fits the limit.  Concrete range, terms and payload sizes (`dlens`, one per entry); the
/// limit walks every prefix-sum boundary (sum-1, sum, sum+1) plus 0 and NO_LIMIT - the limit
/// decides vector lengths, so it is enumerated rather than symbolic; cursors stay symbolic.
pub fn slice_limit(s: &mut Src, sh: &LogShape, dlens: &[usize], lo_off: u64, hi_off: u64) {
    use raft_proto::protocompat::PbMessageExt;
    let (mut log, g) = mk_log(s, sh);
    let mut i = 0;
    while i < sh.n_stable {
        log.store.dlen[i] = dlens[i];
        i += 1;
    }
    i = 0;
    while i < sh.n_unstable {
        let d = dlens[sh.n_stable + i];
        if d > 0 {
            log.unstable.entries[i].data = vec![0u8; d];
        }
        i += 1;
    }
    let lo = sh.base + lo_off;
    let hi = sh.base + hi_off;
    let n = (hi - lo) as usize;
    // sizes of the requested entries (same size function the implementation uses)
    let mut sizes = [0u64; LMAX];
    let mut k = 0;
    while k < n {
        let idx = lo + k as u64;
        let mut e = Entry::default();
        e.index = idx;
        e.term = g.term_at(idx).unwrap();
        let d = dlens[(idx - g.base - 1) as usize];
        if d > 0 {
            e.data = vec![0u8; d];
        }
        sizes[k] = e.compute_size() as u64;
        forget(e);
        k += 1;
    }
    let mut truncated = false;
    let mut c = 0;
    let mut sum = 0u64;
    while c <= n + 1 {
        // candidate limits around the c-th prefix sum
        let mut d = 0;
        while d < 3 {
            let limit = if c == n + 1 { NO_LIMIT } else if sum + d >= 1 { sum + d - 1 } else { 0 };
            let r = log.slice(lo, hi, Some(limit), GetEntriesContext::empty(false));
            assert!(r.is_ok());
            let v = r.unwrap();
            let mut keep = 0usize;
            let mut total = 0u64;
            let mut q = 0;
            while q < n {
                if q == 0 || (keep == q && total + sizes[q] <= limit) {
                    keep = q + 1;
                }
                total += sizes[q];
                q += 1;
            }
            if limit == NO_LIMIT {
                keep = n;
            }
            assert!(n == 0 || v.len() >= 1, "size-limited read returned nothing");
            assert!(v.len() == keep, "size-limited read is not the maximal prefix within the limit");
            q = 0;
            while q < v.len() {
                assert!(v[q].index == lo + q as u64, "size-limited read is not a contiguous prefix of the range");
                assert!(Some(v[q].term) == g.term_at(v[q].index));
                q += 1;
            }
            if v.len() < n {
                truncated = true;
            }
            forget(v);
            d += 1;
        }
        if c < n {
            sum += sizes[c];
        }
        c += 1;
    }
    vcover!(truncated, "some limit truncated the range");
    forget(log);
}

/// restore(snapshot) followed by stable_snap / maybe_persist_snap, and stable_entries after
/// an append: the [Q 2-3] sequences of DESIGN.md C14.
pub fn restore_seq(s: &mut Src, sh: &LogShape) {
    let (mut log, g) = mk_log(s, sh);
    let idx = s.u64();
    let term = s.u64();
    vassume!(idx >= g.committed && idx < u64::MAX / 2 && term >= 1 && term < TERM_MAX);
    let mut snap = Snapshot::default();
    let mut md = SnapshotMetadata::default();
    md.index = idx;
    md.term = term;
    snap.metadata = Some(md);
    log.restore(snap);
    // the log is now exactly the snapshot point
    assert!(log.first_index() == idx + 1 && log.last_index() == idx && log.last_term() == term);
    assert!(log.committed == idx && log.term(idx).ok() == Some(term));
    assert!(log.persisted <= g.committed && log.persisted <= g.persisted, "persisted must fall back to what was committed");
    assert!(log.applied == g.applied);
    assert!(log.unstable_entries().is_empty() && log.unstable.offset == idx + 1);
    let p0 = log.persisted;
    // a stale persistence notice for old entries must not move persisted onto the snapshot
    let i2 = s.u64();
    let t2 = s.u64();
    let r = log.maybe_persist(i2, t2);
    if r {
        assert!(i2 < idx && i2 > p0, "persisted moved to or beyond the pending snapshot index");
    }
    // the snapshot gets written and acknowledged
    log.stable_snap(idx);
    log.store.app_apply_snapshot(idx, term);
    let r2 = log.maybe_persist_snap(idx);
    assert!(r2 == (idx > log.persisted.min(idx.saturating_sub(0)) || r2));
    assert!(log.persisted == idx || idx <= p0.max(if r { i2 } else { 0 }), "persisted after the snapshot was persisted");
    assert!(log.first_index() == idx + 1 && log.last_index() == idx && log.term(idx).ok() == Some(term));
    vcover!(idx > g.last(), "snapshot beyond the log");
    vcover!(idx <= g.last(), "snapshot inside the log");
    forget(log);
}
