//! C14 - RaftLog (stable storage + unstable suffix + pending snapshot) behaves as one
//! logical log.  Real `RaftLog<VStore>`; reference model = `(base, snap_term, [terms])`
//! plus three cursors, kept in harness arrays (`Ghost`).

use crate::inp::Src;
use crate::state::*;
use crate::vstore::{VStore, LMAX};
use raft::eraftpb::{Entry, Snapshot, SnapshotMetadata};
use raft::{Config, GetEntriesContext, RaftLog, Storage, NO_LIMIT};

/// Log shape: `n_stable` entries in storage, `n_unstable` behind them, `overlap` of the
/// unstable entries shadow (stale) storage entries that the application has not yet
/// overwritten.  Terms: concrete pattern if given, else symbolic non-decreasing.
#[derive(Clone, Copy)]
pub struct LogShape {
    pub base: u64,
    pub n_stable: usize,
    pub n_unstable: usize,
    pub terms: &'static [u64],
}

pub fn mk_log(s: &mut Src, sh: &LogShape) -> (RaftLog<VStore>, Ghost) {
    let n = sh.n_stable + sh.n_unstable;
    let fixed = !sh.terms.is_empty();
    let foff = if sh.base == 0 { 0 } else { 1 };
    let snap_term = if sh.base == 0 {
        0
    } else if fixed {
        sh.terms[0]
    } else {
        let t = s.u64();
        vassume!(t >= 1 && t < TERM_MAX);
        t
    };
    let mut terms = [0u64; LMAX];
    let mut prev = snap_term;
    let mut i = 0;
    while i < n {
        let t = if fixed { sh.terms[i + foff] } else { s.u64() };
        vassume!(t >= prev && t >= 1 && t < TERM_MAX);
        terms[i] = t;
        prev = t;
        i += 1;
    }
    let mut store = VStore::new(sh.base, snap_term);
    i = 0;
    while i < sh.n_stable {
        store.push(terms[i]);
        i += 1;
    }
    let cfg = Config::new(ME);
    let mut log = RaftLog::new(store, logger(), &cfg);
    let mut v = Vec::with_capacity(LMAX);
    i = sh.n_stable;
    while i < n {
        let mut e = Entry::default();
        e.index = sh.base + 1 + i as u64;
        e.term = terms[i];
        log.unstable.entries_size += raft::util::entry_approximate_size(&e);
        v.push(e);
        i += 1;
    }
    log.unstable.entries = v;
    let stable_last = sh.base + sh.n_stable as u64;
    let last = sh.base + n as u64;
    let persisted = s.u64();
    let committed = s.u64();
    let applied = s.u64();
    vassume!(persisted >= sh.base && persisted <= stable_last);
    vassume!(committed >= sh.base && committed <= last);
    vassume!(applied >= sh.base && applied <= committed);
    log.persisted = persisted;
    log.committed = committed;
    log.applied = applied;
    let g = Ghost {
        term: prev,
        base: sh.base,
        snap_term,
        terms,
        etype: [0; LMAX],
        n,
        committed,
        applied,
        persisted,
    };
    (log, g)
}

/// every query answers like the sequence model
pub fn check_queries(log: &RaftLog<VStore>, g: &Ghost) {
    assert!(log.first_index() == g.base + 1, "first_index");
    assert!(log.last_index() == g.last(), "last_index");
    assert!(log.last_term() == g.last_term(), "last_term");
    let mut i = if g.base == 0 { 0 } else { g.base - 1 };
    while i <= g.last() + 1 {
        let exp = g.term_at(i).unwrap_or(0);
        assert!(log.term(i).ok() == Some(exp), "term(i)");
        i += 1;
    }
}

fn ment(idx: u64, term: u64, ety: i32) -> Entry {
    let mut e = Entry::default();
    e.index = idx;
    e.term = term;
    e.entry_type = ety;
    e
}

/// maybe_append with a concrete term pattern (message prev term / entry terms) from an
/// arbitrary cursor state; all positions of the first conflict relative to
/// offset / persisted / committed arise from the symbolic cursors.
pub fn maybe_append(s: &mut Src, sh: &LogShape, idx_off: u64, mlog: u64, mterms: &[u64]) {
    let (mut log, g) = mk_log(s, sh);
    let idx = sh.base + idx_off;
    let n = mterms.len();
    let mcommit = s.u64();
    let mut ents = Vec::with_capacity(3);
    let mut j = 0;
    while j < n {
        let e = ment(idx + 1 + j as u64, mterms[j], 0);
        // precondition (documented panic otherwise): no conflict at or below commit
        if e.index <= g.committed {
            vassume!(g.term_at(e.index) == Some(e.term));
        }
        ents.push(e);
        j += 1;
    }
    let res = log.maybe_append(idx, mlog, mcommit, &ents);
    let matched = g.term_at(idx) == Some(mlog);
    assert!(res.is_some() == matched, "accept iff prev (index, term) is in the log");
    let mut g2 = g;
    if matched {
        let mut conflict = 0u64;
        j = 0;
        while j < n {
            let i = idx + 1 + j as u64;
            if conflict == 0 && g.term_at(i) != Some(mterms[j]) {
                conflict = i;
            }
            j += 1;
        }
        let (c, l) = res.unwrap();
        assert!(c == conflict, "conflict index");
        assert!(l == idx + n as u64, "last new index");
        if conflict != 0 {
            // model: truncate at conflict, append the rest
            let k0 = (conflict - g.base - 1) as usize;
            g2.n = k0;
            j = (conflict - idx - 1) as usize;
            while j < n {
                g2.terms[g2.n] = mterms[j];
                g2.n += 1;
                j += 1;
            }
            if g2.persisted > conflict - 1 {
                g2.persisted = conflict - 1;
            }
            assert!(log.unstable.offset <= conflict);
        }
        let cap = if mcommit < l { mcommit } else { l };
        if cap > g2.committed {
            g2.committed = cap;
        }
        vcover!(conflict != 0 && conflict <= g.last(), "truncating append");
        vcover!(conflict == 0 || n == 0, "no conflict");
    }
    assert!(log.committed == g2.committed, "committed");
    assert!(log.persisted == g2.persisted, "persisted");
    assert!(log.applied == g2.applied, "applied");
    check_queries(&log, &g2);
    // nothing at or below the (old) commit index changed
    let mut i = g.base;
    while i <= g.committed {
        assert!(log.term(i).ok() == g.term_at(i), "committed entry altered");
        i += 1;
    }
    forget(log);
    forget(ents);
}

pub fn dbg1(s: &mut Src, sh: &LogShape) {
    let (log, g) = mk_log(s, sh);
    assert!(log.match_term(1, 1));
    assert!(log.match_term(2, 2));
    assert!(log.match_term(3, 3));
    forget(log);
}
pub fn dbg2(s: &mut Src, sh: &LogShape) {
    let (log, g) = mk_log(s, sh);
    let mut ents = Vec::with_capacity(3);
    ents.push(ment(2, 2, 0));
    ents.push(ment(3, 3, 0));
    let c = log.find_conflict(&ents);
    assert!(c == 0);
    forget(log);
    forget(ents);
}

pub fn dbg3(s: &mut Src, sh: &LogShape) {
    let (mut log, g) = mk_log(s, sh);
    let mut ents = Vec::with_capacity(3);
    ents.push(ment(2, 2, 0));
    ents.push(ment(3, 3, 0));
    let res = log.maybe_append(1, 1, 0, &ents);
    assert!(res.is_some());
    forget(log);
    forget(ents);
}
pub fn dbg4(s: &mut Src, sh: &LogShape) {
    let (mut log, g) = mk_log(s, sh);
    let mut ents = Vec::with_capacity(3);
    ents.push(ment(2, 2, 0));
    ents.push(ment(3, 3, 0));
    let c = log.find_conflict(&ents);
    if c != 0 {
        // reachable only if find_conflict did not fold
        let st = (c - 2) as usize;
        assert!(st < 2);
        log.append(&ents[st..]);
    }
    forget(log);
    forget(ents);
}

pub fn dbg_a(_s: &mut Src) {
    let mut v = Vec::with_capacity(3);
    v.push(ment(2, 2, 0));
    v.push(ment(3, 3, 0));
    let mut sum = 0;
    let mut cnt = 0;
    for e in v.iter() {
        sum += e.term;
        cnt += 1;
    }
    assert!(sum == 5);
    assert!(cnt == 2);
    forget(v);
}
pub fn dbg_b(_s: &mut Src) {
    let mut v = Vec::with_capacity(3);
    v.push(ment(2, 2, 0));
    v.push(ment(3, 3, 0));
    let mut sum = 0;
    let mut i = 0;
    while i < v.len() {
        sum += v[i].term;
        i += 1;
    }
    assert!(sum == 5);
    forget(v);
}
pub fn dbg_c(_s: &mut Src) {
    let v = [ment(2, 2, 0), ment(3, 3, 0)];
    let mut sum = 0;
    let mut cnt = 0;
    for e in v.iter() {
        sum += e.term;
        cnt += 1;
    }
    assert!(sum == 5);
    assert!(cnt == 2);
    forget(v);
}

pub fn dbg_d(s: &mut Src, sh: &LogShape) {
    let (log, g) = mk_log(s, sh);
    let mut v = Vec::with_capacity(3);
    v.push(ment(2, 2, 0));
    v.push(ment(3, 3, 0));
    let mut sum = 0;
    for e in v.iter() {
        sum += e.term + e.index;
    }
    assert!(sum == 10);
    forget(v);
    forget(log);
}
pub fn dbg_e(s: &mut Src, sh: &LogShape) {
    let (log, g) = mk_log(s, sh);
    let mut v = Vec::with_capacity(3);
    v.push(ment(2, 2, 0));
    v.push(ment(3, 3, 0));
    let mut ok = true;
    for e in v.iter() {
        ok &= log.match_term(e.index, e.term);
    }
    assert!(ok);
    forget(v);
    forget(log);
}
pub fn dbg_f(s: &mut Src, sh: &LogShape) {
    let (log, g) = mk_log(s, sh);
    let mut v = Vec::with_capacity(3);
    v.push(ment(2, 2, 0));
    v.push(ment(3, 3, 0));
    let mut ok = true;
    for e in v.iter() {
        if !log.match_term(e.index, e.term) {
            ok = false;
            break;
        }
    }
    assert!(ok);
    forget(v);
    forget(log);
}
