//! Array-backed `raft::Storage` (the environment model, DESIGN.md 1.3).
//!
//! Snapshot point `(snap_index, snap_term)` followed by `len <= LMAX` contiguous entries.
//! Implements the documented `Storage` contract: Compacted / Unavailable errors, the term
//! of the snapshot index is retained, `entries` honours `max_size` with at least one
//! entry (through the real `raft::util::limit_size`), optional
//! `LogTemporarilyUnavailable` for async-capable contexts.

use raft::eraftpb::{ConfState, Entry, HardState, Snapshot};
use raft::{Error, GetEntriesContext, RaftState, Storage, StorageError};

pub const LMAX: usize = 5;

#[derive(Clone)]
pub struct VStore {
    pub snap_index: u64,
    pub snap_term: u64,
    pub terms: [u64; LMAX],
    /// entry type per slot (prost i32: 0 normal, 1 conf change, 2 conf change v2)
    pub etype: [i32; LMAX],
    /// payload length per slot (concrete per harness; payload bytes are zero)
    pub dlen: [usize; LMAX],
    pub len: usize,
    pub hs: HardState,
    pub cs: ConfState,
    /// entries() answers LogTemporarilyUnavailable to async-capable callers
    pub log_unavailable: bool,
    /// snapshot(): 0 = SnapshotTemporarilyUnavailable, otherwise a snapshot at
    /// `(snapshot_index, snapshot_term)` (the harness picks them per the contract)
    pub snapshot_mode: u8,
    pub snapshot_index: u64,
    pub snapshot_term: u64,
}

impl VStore {
    pub fn new(snap_index: u64, snap_term: u64) -> VStore {
        VStore {
            snap_index,
            snap_term,
            terms: [0; LMAX],
            etype: [0; LMAX],
            dlen: [0; LMAX],
            len: 0,
            hs: HardState::default(),
            cs: ConfState::default(),
            log_unavailable: false,
            snapshot_mode: 0,
            snapshot_index: 0,
            snapshot_term: 0,
        }
    }
    pub fn first(&self) -> u64 {
        self.snap_index + 1
    }
    pub fn last(&self) -> u64 {
        self.snap_index + self.len as u64
    }
    pub fn push(&mut self, term: u64) {
        self.terms[self.len] = term;
        self.len += 1;
    }
    pub fn entry_at(&self, idx: u64) -> Entry {
        let k = (idx - self.first()) as usize;
        let mut e = Entry::default();
        e.index = idx;
        e.term = self.terms[k];
        e.entry_type = self.etype[k];
        // (k is concrete wherever this is called: entries() case-splits on the range length)
        if self.dlen[k] > 0 {
            e.data = vec![0u8; self.dlen[k]];
        }
        e
    }
    /// The application's write of a Ready's entries (truncating overwrite + append).
    pub fn app_append(&mut self, ents: &[Entry]) {
        if ents.is_empty() {
            return;
        }
        let first_new = ents[0].index;
        assert!(first_new >= self.first() && first_new <= self.last() + 1);
        self.len = (first_new - self.first()) as usize;
        let mut i = 0;
        while i < ents.len() {
            assert!(self.len < LMAX, "VStore capacity (harness bound) exceeded");
            self.terms[self.len] = ents[i].term;
            self.etype[self.len] = ents[i].entry_type;
            self.dlen[self.len] = ents[i].data.len();
            self.len += 1;
            i += 1;
        }
    }
    /// The application's write of a Ready's snapshot.
    pub fn app_apply_snapshot(&mut self, index: u64, term: u64) {
        self.snap_index = index;
        self.snap_term = term;
        self.len = 0;
    }
}

impl Storage for VStore {
    fn initial_state(&self) -> raft::Result<RaftState> {
        Ok(RaftState::new(self.hs.clone(), self.cs.clone()))
    }

    fn entries(
        &self,
        low: u64,
        high: u64,
        max_size: impl Into<Option<u64>>,
        context: GetEntriesContext,
    ) -> raft::Result<Vec<Entry>> {
        if low < self.first() {
            return Err(Error::Store(StorageError::Compacted));
        }
        assert!(high <= self.last() + 1, "Storage::entries contract: high > last_index + 1");
        if self.log_unavailable && context.can_async() {
            return Err(Error::Store(StorageError::LogTemporarilyUnavailable));
        }
        // The range may be symbolic; the result is built under a case split on its length so
        // that every allocation and loop has a concrete size.
        let n = high.saturating_sub(low);
        let mut len = 0usize;
        while len <= LMAX {
            if n == len as u64 {
                let mut v = Vec::with_capacity(LMAX);
                let mut k = 0;
                while k < len {
                    v.push(self.entry_at(low + k as u64));
                    k += 1;
                }
                raft::util::limit_size(&mut v, max_size.into());
                return Ok(v);
            }
            len += 1;
        }
        unreachable!("range longer than the store")
    }

    fn term(&self, idx: u64) -> raft::Result<u64> {
        if idx == self.snap_index {
            return Ok(self.snap_term);
        }
        if idx < self.first() {
            return Err(Error::Store(StorageError::Compacted));
        }
        if idx > self.last() {
            return Err(Error::Store(StorageError::Unavailable));
        }
        Ok(self.terms[(idx - self.first()) as usize])
    }

    fn first_index(&self) -> raft::Result<u64> {
        Ok(self.first())
    }

    fn last_index(&self) -> raft::Result<u64> {
        Ok(self.last())
    }

    fn snapshot(&self, request_index: u64, _to: u64) -> raft::Result<Snapshot> {
        if self.snapshot_mode == 0 {
            return Err(Error::Store(StorageError::SnapshotTemporarilyUnavailable));
        }
        // contract: "a snapshot's index must not be less than the request_index"
        assert!(self.snapshot_index >= request_index, "harness: snapshot contract");
        let mut s = Snapshot::default();
        let mut meta = raft::eraftpb::SnapshotMetadata::default();
        meta.index = self.snapshot_index;
        meta.term = self.snapshot_term;
        meta.conf_state = Some(self.cs.clone());
        s.metadata = Some(meta);
        Ok(s)
    }
}
