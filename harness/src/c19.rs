//! C19 - MemStorage honours the Storage contract.  Real `MemStorage` driven by scripted
//! mutation sequences (op kinds and index offsets concrete, terms / hard state / conf ids
//! symbolic), compared after every script with a model: snapshot point + contiguous entries.

use crate::inp::Src;
use raft::eraftpb::{ConfState, Entry, HardState, Snapshot, SnapshotMetadata};
use raft::storage::MemStorage;
use raft::{Error, GetEntriesContext, Storage, StorageError};

pub const NM: usize = 8;

#[derive(Clone, Copy)]
pub struct Op {
    /// 1 append(start, n) with symbolic non-decreasing terms; 2 compact(idx); 3 apply_snapshot(idx)
    /// with symbolic term and conf state; 4 set_hardstate(symbolic) ; 5 commit_to(idx);
    /// 6 set_conf_state(symbolic)
    pub kind: u8,
    pub a: u64,
    pub n: usize,
    /// append only: concrete term for every entry (0 = symbolic non-decreasing terms)
    pub t: u64,
}

pub const fn append(start: u64, n: usize) -> Op {
    Op { kind: 1, a: start, n, t: 0 }
}
/// append(start, n) with the concrete term `t` for every entry
pub const fn append_t(start: u64, n: usize, t: u64) -> Op {
    Op { kind: 1, a: start, n, t }
}
pub const fn compact(idx: u64) -> Op {
    Op { kind: 2, a: idx, n: 0, t: 0 }
}
pub const fn snap(idx: u64) -> Op {
    Op { kind: 3, a: idx, n: 0, t: 0 }
}
pub const HS: Op = Op { kind: 4, a: 0, n: 0, t: 0 };
pub const fn commit(idx: u64) -> Op {
    Op { kind: 5, a: idx, n: 0, t: 0 }
}
pub const CS: Op = Op { kind: 6, a: 0, n: 0, t: 0 };

pub struct Model {
    /// index / term of the last applied snapshot (its term stays answerable)
    pub meta_index: u64,
    pub meta_term: u64,
    /// index before the first retained entry (compaction point; >= meta_index)
    pub snap_index: u64,
    pub snap_term: u64,
    pub terms: [u64; NM],
    pub len: usize,
    pub hs_term: u64,
    pub hs_vote: u64,
    pub hs_commit: u64,
    pub cs_learner: u64,
}

impl Model {
    fn first(&self) -> u64 {
        self.snap_index + 1
    }
    fn last(&self) -> u64 {
        self.snap_index + self.len as u64
    }
    /// what Storage::term answers with a value.  NB: MemStorage::compact does not retain the term
    /// of the compaction point (its own unit tests pin `Compacted` for first_index - 1); only the
    /// term of the last applied snapshot stays answerable.
    fn term(&self, i: u64) -> Option<u64> {
        if i == self.meta_index {
            Some(self.meta_term)
        } else if i > self.snap_index && i <= self.last() {
            Some(self.terms[(i - self.first()) as usize])
        } else {
            None
        }
    }
}

fn cs_of(learner: u64) -> ConfState {
    let mut cs = ConfState::default();
    cs.voters = vec![1, 2, 3];
    // (always exactly one learner slot: a symbolic *length* would make every clone of the
    // ConfState a symbolic-size allocation; the id is symbolic, 0 = "initial configuration")
    cs.learners = vec![learner];
    cs
}

pub fn script(s: &mut Src, ops: &[Op], q_lo: u64, q_hi: u64) {
    // (not new_with_conf_state: its `Vec::extend(IntoIter)` reserves a length obtained from a
    // pointer difference, which CBMC does not fold - the configuration is set directly instead)
    let st = MemStorage::new();
    st.wl().set_conf_state(cs_of(0));
    let mut m = Model { meta_index: 0, meta_term: 0, snap_index: 0, snap_term: 0, terms: [0; NM], len: 0, hs_term: 0, hs_vote: 0, hs_commit: 0, cs_learner: 0 };
    let mut k = 0;
    while k < ops.len() {
        let op = ops[k];
        if op.kind == 1 {
            // documented precondition: first_index <= start <= last_index + 1
            assert!(op.a >= m.first() && op.a <= m.last() + 1, "script: append precondition");
            let mut ents = Vec::with_capacity(4);
            let base_term = if op.a > m.first() { m.terms[(op.a - 1 - m.first()) as usize] } else { m.snap_term };
            let mut prev = base_term;
            let mut j = 0;
            while j < op.n {
                let t = if op.t != 0 { op.t } else { s.u64() };
                vassume!(t >= prev && t >= 1 && t < (1 << 62));
                let mut e = Entry::default();
                e.index = op.a + j as u64;
                e.term = t;
                ents.push(e);
                prev = t;
                j += 1;
            }
            st.wl().append(&ents).unwrap();
            // model: truncating overwrite
            m.len = (op.a - m.first()) as usize;
            j = 0;
            while j < op.n {
                m.terms[m.len] = ents[j].term;
                m.len += 1;
                j += 1;
            }
            std::mem::forget(ents);
        } else if op.kind == 2 {
            // documented: the application never compacts beyond what it applied (<= last index)
            assert!(op.a <= m.last(), "script: compact precondition");
            st.wl().compact(op.a).unwrap();
            if op.a > m.first() {
                let drop = (op.a - m.first()) as usize;
                m.snap_term = m.terms[drop - 1];
                m.snap_index = op.a - 1;
                let mut j = 0;
                while j + drop < m.len {
                    m.terms[j] = m.terms[j + drop];
                    j += 1;
                }
                m.len -= drop;
            }
        } else if op.kind == 3 {
            // documented precondition: snapshot index >= first_index (else SnapshotOutOfDate)
            let t = s.u64();
            vassume!(t >= 1 && t < (1 << 62));
            let l = 4 + s.below(2);
            let mut snap = Snapshot::default();
            let mut md = SnapshotMetadata::default();
            md.index = op.a;
            md.term = t;
            md.conf_state = Some(cs_of(l));
            snap.metadata = Some(md);
            let r = st.wl().apply_snapshot(snap);
            if m.first() > op.a {
                assert!(r == Err(Error::Store(StorageError::SnapshotOutOfDate)), "out-of-date snapshot must be refused");
            } else {
                assert!(r.is_ok());
                m.snap_index = op.a;
                m.snap_term = t;
                m.meta_index = op.a;
                m.meta_term = t;
                m.len = 0;
                m.hs_commit = op.a;
                if t > m.hs_term {
                    m.hs_term = t;
                }
                m.cs_learner = l;
            }
        } else if op.kind == 4 {
            let mut hs = HardState::default();
            hs.term = s.u64();
            hs.vote = s.u64();
            hs.commit = s.u64();
            // the application stores a commit index inside what it holds
            vassume!(hs.commit >= m.snap_index && hs.commit <= m.last() && (hs.commit > m.snap_index || m.snap_index == m.meta_index));
            m.hs_term = hs.term;
            m.hs_vote = hs.vote;
            m.hs_commit = hs.commit;
            st.wl().set_hardstate(hs);
        } else if op.kind == 5 {
            assert!(m.len > 0 && op.a >= m.first() && op.a <= m.last(), "script: commit_to precondition");
            st.wl().commit_to(op.a).unwrap();
            m.hs_commit = op.a;
            m.hs_term = m.term(op.a).unwrap();
        } else {
            let l = 6 + s.below(2);
            st.wl().set_conf_state(cs_of(l));
            m.cs_learner = l;
        }
        k += 1;
    }
    // ---------------- queries ----------------
    assert!(st.first_index().unwrap() == m.first(), "first_index");
    assert!(st.last_index().unwrap() == m.last(), "last_index");
    let rs = st.initial_state().unwrap();
    assert!(rs.hard_state.term == m.hs_term && rs.hard_state.vote == m.hs_vote && rs.hard_state.commit == m.hs_commit, "hard state");
    assert!(rs.conf_state.voters.len() == 3 && rs.conf_state.learners.len() == 1 && rs.conf_state.learners[0] == m.cs_learner, "stored configuration");
    let mut i = if m.snap_index > 1 { m.snap_index - 2 } else { 0 };
    while i <= m.last() + 2 {
        let r = st.term(i);
        match m.term(i) {
            Some(t) => assert!(r == Ok(t), "term(i)"),
            None => {
                if i < m.first() {
                    assert!(r == Err(Error::Store(StorageError::Compacted)), "term of a compacted index");
                } else {
                    assert!(r == Err(Error::Store(StorageError::Unavailable)), "term of a not-yet-available index");
                }
            }
        }
        i += 1;
    }
    // range reads [q_lo, q_hi): no limit, and limit 0 (at least one entry)
    if q_hi <= m.last() + 1 && q_lo <= q_hi {
        let r = st.entries(q_lo, q_hi, None, GetEntriesContext::empty(false));
        if q_lo < m.first() {
            assert!(r == Err(Error::Store(StorageError::Compacted)), "entries below first_index");
        } else {
            let v = r.unwrap();
            assert!(v.len() == (q_hi - q_lo) as usize, "entries(lo, hi) length");
            let mut j = 0;
            while j < v.len() {
                assert!(v[j].index == q_lo + j as u64 && Some(v[j].term) == m.term(v[j].index), "entries(lo, hi) content");
                j += 1;
            }
            std::mem::forget(v);
            if q_hi > q_lo {
                let v1 = st.entries(q_lo, q_hi, Some(0), GetEntriesContext::empty(false)).unwrap();
                assert!(v1.len() == 1 && v1[0].index == q_lo, "size-limited read returns at least (exactly) one entry for limit 0");
                std::mem::forget(v1);
            }
        }
    }
    // snapshot at the stored commit index
    if (m.hs_commit > m.snap_index || m.hs_commit == m.meta_index) && m.hs_commit <= m.last() {
        let sn = st.snapshot(0, 0).unwrap();
        let md = sn.get_metadata();
        assert!(md.index == m.hs_commit, "snapshot index = stored commit index");
        assert!(Some(md.term) == m.term(m.hs_commit), "snapshot carries the term of the commit index");
        let cs = md.get_conf_state();
        assert!(cs.voters.len() == 3 && cs.learners.len() == 1, "snapshot carries the stored configuration");
        assert!(cs.learners[0] == m.cs_learner, "snapshot carries the stored configuration (learner id)");
        let req = m.hs_commit + 3;
        let sn2 = st.snapshot(req, 0).unwrap();
        assert!(sn2.get_metadata().index >= req, "snapshot index below the requested one");
        std::mem::forget(sn);
        std::mem::forget(sn2);
    }
    vcover!(true, "script completed");
    std::mem::forget(st);
}

pub fn dbg_mem(s: &mut Src) {
    let st = MemStorage::new();
    st.wl().set_conf_state(cs_of(0));
    if st.first_index().unwrap() != 1 {
        assert!(crate::c02::marker_a() == 3);
    }
    let mut snap = Snapshot::default();
    let mut md = SnapshotMetadata::default();
    md.index = 5;
    md.term = 2;
    md.conf_state = Some(cs_of(4));
    snap.metadata = Some(md);
    let r = st.wl().apply_snapshot(snap);
    if r.is_err() {
        assert!(crate::c02::marker_b() == 3);
    }
    if st.first_index().unwrap() != 6 || st.last_index().unwrap() != 5 {
        assert!(crate::c02::marker_c() == 3);
    }
    std::mem::forget(st);
}
