//! C12 - configuration-change algebra: invariants, model equality, rejected changes leave
//! everything untouched, ConfState round trip, quorum overlap across a change.
//! Real `Changer::{simple, enter_joint, leave_joint}`, `ProgressTracker::apply_conf`,
//! `confchange::restore`, `Configuration::to_conf_state`, `JointConfig::vote_result`.

use crate::inp::Src;
use crate::state::{has, set_of, CAP};
use raft::eraftpb::{ConfChangeSingle, ConfChangeType, ConfState};
use raft::verif_export::{Configuration, HashMap, HashSet, ProgressMap, VoteResult};
use raft::{Changer, Progress, ProgressTracker};

pub const UNIV: u64 = 5; // ids 1..=5; id 0 = "ignored change"

/// configuration as bit masks (bit i = id i)
#[derive(Clone, Copy, PartialEq, Eq)]
pub struct M {
    pub inc: u8,
    pub out: u8,
    pub lrn: u8,
    pub nxt: u8,
    pub auto: bool,
    pub prs: u8,
}

fn bit(id: u64) -> u8 {
    1u8 << id
}

pub fn mask(ids: &[u64]) -> u8 {
    let mut m = 0;
    let mut i = 0;
    while i < ids.len() {
        m |= bit(ids[i]);
        i += 1;
    }
    m
}

#[derive(Clone, Copy)]
pub struct CShape {
    pub inc: &'static [u64],
    pub out: &'static [u64],
    pub lrn: &'static [u64],
    pub nxt: &'static [u64],
    pub auto: bool,
}

pub fn mk_tracker(sh: &CShape) -> (ProgressTracker, M) {
    const NONE_P: Option<(u64, Progress)> = None;
    let mut slots: [Option<(u64, Progress)>; CAP] = [NONE_P; CAP];
    let all = mask(sh.inc) | mask(sh.out) | mask(sh.lrn) | mask(sh.nxt);
    let mut k = 0;
    let mut id = 1;
    while id <= UNIV {
        if all & bit(id) != 0 {
            slots[k] = Some((id, Progress::new(1, 2)));
            k += 1;
        }
        id += 1;
    }
    let conf = Configuration::verif_from_parts(set_of(sh.inc), set_of(sh.out), set_of(sh.lrn), set_of(sh.nxt), sh.auto);
    let t = ProgressTracker::verif_from_parts(HashMap::verif_from_slots(slots), conf, HashMap::default(), 2, false);
    (t, M { inc: mask(sh.inc), out: mask(sh.out), lrn: mask(sh.lrn), nxt: mask(sh.nxt), auto: sh.auto, prs: all })
}

/// read the real tracker back as masks
pub fn read(t: &ProgressTracker) -> M {
    let c = t.conf();
    let (hi, ho) = c.voters().verif_halves();
    let mut m = M { inc: 0, out: 0, lrn: 0, nxt: 0, auto: *c.auto_leave(), prs: 0 };
    let mut id = 0;
    while id <= UNIV + 1 {
        if hi.contains(&id) {
            m.inc |= bit(id);
        }
        if ho.contains(&id) {
            m.out |= bit(id);
        }
        if c.learners().contains(&id) {
            m.lrn |= bit(id);
        }
        if c.learners_next().contains(&id) {
            m.nxt |= bit(id);
        }
        if t.get(id).is_some() {
            m.prs |= bit(id);
        }
        id += 1;
    }
    // set sizes must agree with the masks (no duplicates / strays outside the universe)
    assert!(hi.len() == m.inc.count_ones() as usize && ho.len() == m.out.count_ones() as usize);
    assert!(c.learners().len() == m.lrn.count_ones() as usize && c.learners_next().len() == m.nxt.count_ones() as usize);
    assert!(t.iter().len() == m.prs.count_ones() as usize);
    m
}

/// the invariants the property names
pub fn invariants(m: &M) {
    assert!(m.lrn & (m.inc | m.out) == 0, "voters and learners overlap");
    assert!(m.nxt & !m.out == 0, "staged learner outside the outgoing voters");
    assert!(m.nxt & m.lrn == 0, "staged learner is already a learner");
    assert!(m.inc != 0, "no voter left");
    assert!(m.prs == m.inc | m.out | m.lrn | m.nxt, "progress is not tracked for exactly the members");
    if m.out == 0 {
        assert!(m.nxt == 0 && !m.auto, "staged learners / auto-leave outside a joint configuration");
    }
}

/// reference semantics of one change (from the doc comments of changer.rs)
fn model_apply(m: &mut M, ty: u64, id: u64) {
    if id == 0 {
        return;
    }
    let b = bit(id);
    let tracked = m.prs & b != 0;
    match ty {
        0 => {
            // AddNode: add or promote to incoming voter
            m.inc |= b;
            m.lrn &= !b;
            m.nxt &= !b;
            m.prs |= b;
        }
        2 => {
            // AddLearnerNode
            if !tracked {
                m.lrn |= b;
                m.prs |= b;
            } else if m.lrn & b == 0 {
                m.inc &= !b;
                m.nxt &= !b;
                if m.out & b != 0 {
                    m.nxt |= b;
                } else {
                    m.lrn |= b;
                }
            }
        }
        _ => {
            // RemoveNode
            if tracked {
                m.inc &= !b;
                m.lrn &= !b;
                m.nxt &= !b;
                if m.out & b == 0 {
                    m.prs &= !b;
                }
            }
        }
    }
}

fn won(m_half: u8, q: u8) -> bool {
    // does the id set q contain a majority of the half ?
    if m_half == 0 {
        return true;
    }
    (m_half & q).count_ones() >= m_half.count_ones() / 2 + 1
}

/// mode: 0 simple, 1 enter_joint(auto_leave symbolic), 2 leave_joint.
/// `types`: concrete change types (0 AddNode, 1 RemoveNode, 2 AddLearnerNode); `id_lists`: the
/// id tuples to walk (concrete: ids decide which sets and progress entries are touched, i.e.
/// vector lengths).  `all_single`: walk every id 0..=UNIV for a one-element change list.
/// auto_leave and the two quorums of the overlap check are symbolic.
pub fn change(s: &mut Src, sh: &CShape, mode: u8, types: &[u64], id_lists: &[&[u64]]) {
    if types.len() == 1 && id_lists.is_empty() {
        let mut id = 0;
        while id <= UNIV {
            change_one(s, sh, mode, types, &[id]);
            id += 1;
        }
    } else if id_lists.is_empty() {
        change_one(s, sh, mode, types, &[]);
    } else {
        let mut k = 0;
        while k < id_lists.len() {
            change_one(s, sh, mode, types, id_lists[k]);
            k += 1;
        }
    }
}

fn change_one(s: &mut Src, sh: &CShape, mode: u8, types: &[u64], cids: &[u64]) {
    let (t0, m0) = mk_tracker(sh);
    invariants(&m0);
    let mut ccs: Vec<ConfChangeSingle> = Vec::with_capacity(4);
    let mut ids = [0u64; 4];
    let mut i = 0;
    while i < types.len() {
        let id = cids[i];
        ids[i] = id;
        let mut c = ConfChangeSingle::default();
        c.node_id = id;
        c.change_type = types[i] as i32;
        ccs.push(c);
        i += 1;
    }
    let auto = s.bool();
    // ---- model
    let mut m = m0;
    let joint0 = m0.out != 0;
    let mut ok = true;
    match mode {
        0 => {
            if joint0 {
                ok = false;
            } else {
                i = 0;
                while i < types.len() {
                    model_apply(&mut m, types[i], ids[i]);
                    i += 1;
                }
                if m.inc == 0 || (m.inc ^ m0.inc).count_ones() > 1 {
                    ok = false;
                }
            }
        }
        1 => {
            if joint0 || m0.inc == 0 {
                ok = false;
            } else {
                m.out = m0.inc;
                i = 0;
                while i < types.len() {
                    model_apply(&mut m, types[i], ids[i]);
                    i += 1;
                }
                m.auto = auto;
                if m.inc == 0 {
                    ok = false;
                }
            }
        }
        _ => {
            if !joint0 {
                ok = false;
            } else {
                m.lrn |= m.nxt;
                m.nxt = 0;
                m.prs &= !(m.out & !m.inc & !m.lrn);
                m.out = 0;
                m.auto = false;
            }
        }
    }
    // ---- real
    let res = {
        let mut ch = Changer::new(&t0);
        match mode {
            0 => ch.simple(&ccs),
            1 => ch.enter_joint(auto, &ccs),
            _ => ch.leave_joint(),
        }
    };
    assert!(res.is_ok() == ok, "accept / reject differs from the reference semantics");
    if let Ok((cfg, changes)) = res {
        let mut t1 = t0.clone();
        t1.apply_conf(cfg, changes, 7);
        let m1 = read(&t1);
        invariants(&m1);
        assert!(m1 == m, "resulting configuration differs from the reference semantics");
        if mode == 0 {
            assert!((m1.inc ^ m0.inc).count_ones() <= 1, "simple change altered more than one voter");
        }
        // newly tracked peers start at next_idx with recent_active set
        let mut id = 1;
        while id <= UNIV {
            if m1.prs & bit(id) != 0 && m0.prs & bit(id) == 0 {
                let p = t1.get(id).unwrap();
                assert!(p.next_idx == 7 && p.matched == 0 && p.recent_active);
            }
            id += 1;
        }
        // ---- quorum overlap across the change (real vote_result on both configurations)
        let q1 = s.below(64) as u8;
        let q2 = s.below(64) as u8;
        let r0 = t0.conf().voters().vote_result(|id| if q1 & bit(id) != 0 { Some(true) } else { None });
        let r1 = t1.conf().voters().vote_result(|id| if q2 & bit(id) != 0 { Some(true) } else { None });
        assert!((r0 == VoteResult::Won) == (won(m0.inc, q1) && won(m0.out, q1)));
        if r0 == VoteResult::Won && r1 == VoteResult::Won {
            assert!(q1 & q2 != 0, "a deciding quorum before the change and one after it do not intersect");
        }
        std::mem::forget(t1);
    }
    vcover!(true, "done");
    // the tracker the Changer was created from is never touched
    assert!(read(&t0) == m0, "rejected / pending change modified the tracker");
    std::mem::forget(t0);
    std::mem::forget(ccs);
}

/// Restoring the ConfState of a configuration reproduces it (and tracks exactly its members).
pub fn round_trip(_s: &mut Src, sh: &CShape) {
    let (t0, m0) = mk_tracker(sh);
    invariants(&m0);
    let cs: ConfState = t0.conf().to_conf_state();
    assert!(cs.voters.len() == sh.inc.len() && cs.voters_outgoing.len() == sh.out.len());
    assert!(cs.learners.len() == sh.lrn.len() && cs.learners_next.len() == sh.nxt.len() && cs.auto_leave == sh.auto);
    let mut t = ProgressTracker::new(2);
    let r = raft::verif_export::restore(&mut t, 9, &cs);
    assert!(r.is_ok(), "restore of a valid ConfState failed");
    let m1 = read(&t);
    assert!(m1 == m0, "restore(to_conf_state(C)) != C");
    invariants(&m1);
    let cs2 = t.conf().to_conf_state();
    assert!(raft_proto::conf_state_eq(&cs, &cs2));
    vcover!(true, "done");
    std::mem::forget(t);
    std::mem::forget(t0);
}

// =====================================================================================
// Raft::apply_conf_change on a real node (dispatch, promotable, transfer abort, commit).

use crate::state::{mk_raft, Shape, ME};
use raft::eraftpb::{ConfChangeTransition, ConfChangeV2};
use raft::StateRole;

/// `changes`: (type, id) concrete; `transition`: 0 auto, 1 implicit, 2 explicit.
pub fn apply_step(s: &mut Src, sh: &Shape, changes: &[(u64, u64)], transition: i32, transferee: Option<u64>) {
    let (mut r, g) = mk_raft(s, sh);
    if sh.role == StateRole::Leader {
        r.lead_transferee = transferee;
    }
    let m0 = read(r.prs());
    let mut cc = ConfChangeV2::default();
    cc.transition = transition;
    let mut i = 0;
    while i < changes.len() {
        let mut c = ConfChangeSingle::default();
        c.change_type = changes[i].0 as i32;
        c.node_id = changes[i].1;
        cc.changes.push(c);
        i += 1;
    }
    // reference: which operation the change denotes and its result
    let joint0 = m0.out != 0;
    let leave = transition == 0 && changes.is_empty();
    let enter = !leave && (transition != 0 || changes.len() > 1);
    let mut m = m0;
    let mut ok = true;
    if leave {
        if !joint0 {
            ok = false;
        } else {
            m.lrn |= m.nxt;
            m.nxt = 0;
            m.prs &= !(m.out & !m.inc & !m.lrn);
            m.out = 0;
            m.auto = false;
        }
    } else {
        if joint0 {
            ok = false;
        } else {
            if enter {
                m.out = m0.inc;
                m.auto = transition != 2;
            }
            i = 0;
            while i < changes.len() {
                model_apply(&mut m, changes[i].0, changes[i].1);
                i += 1;
            }
            if m.inc == 0 || (!enter && (m.inc ^ m0.inc).count_ones() > 1) {
                ok = false;
            }
        }
    }
    let (term0, role0, commit0) = (r.term, r.state, g.committed);
    let res = r.apply_conf_change(&cc);
    assert!(res.is_ok() == ok, "apply_conf_change accept/reject");
    let m1 = read(r.prs());
    assert!(r.term == term0 && r.state == role0, "applying a membership change altered term or role");
    if !ok {
        assert!(m1 == m0, "rejected change modified the configuration");
        assert!(r.msgs.is_empty());
    } else {
        assert!(m1 == m, "configuration after apply_conf_change differs from the reference semantics");
        invariants(&m1);
        let cs = res.unwrap();
        assert!(mask(&cs.voters) == m1.inc && mask(&cs.voters_outgoing) == m1.out && mask(&cs.learners) == m1.lrn && mask(&cs.learners_next) == m1.nxt && cs.auto_leave == m1.auto, "returned ConfState");
        // C09: promotable exactly when this node is a voter of its own active configuration
        let voter = (m1.inc | m1.out) & bit(ME) != 0;
        assert!(r.promotable() == voter, "promotable must follow the node's voter status");
        if role0 == StateRole::Leader {
            // C17: a transfer target that left the voters is forgotten
            if let Some(t) = transferee {
                let still_voter = (m1.inc | m1.out) & bit(t) != 0;
                assert!(r.lead_transferee == if still_voter || !voter { Some(t) } else { None }, "pending transfer after membership change");
            }
            // C04 under the *new* configuration
            let c1 = r.raft_log.committed;
            assert!(c1 >= commit0);
            if c1 > commit0 {
                assert!(g.term_at(c1) == Some(term0), "committed an older-term entry");
                let acked = |half: u8| -> bool {
                    if half == 0 {
                        return true;
                    }
                    let mut c = 0;
                    let mut id = 1;
                    while id <= UNIV {
                        if half & bit(id) != 0 && r.prs().get(id).map_or(false, |p| p.matched >= c1) {
                            c += 1;
                        }
                        id += 1;
                    }
                    c >= half.count_ones() / 2 + 1
                };
                assert!(acked(m1.inc) && acked(m1.out), "commit without a quorum of the new configuration");
            }
            crate::oracle::check_leader_msgs(&r, sh);
        } else {
            assert!(r.msgs.is_empty() && r.raft_log.committed == commit0);
        }
    }
    vcover!(true, "done");
    crate::state::forget(r);
}

/// Two steps: the leader applies a membership change, then receives an append ack.
/// Covers "removed / demoted leader keeps serving until it steps down" without panics (C20).
pub fn apply_then_ack(s: &mut Src, sh: &Shape, changes: &[(u64, u64)], from: u64, idx_off: u64) {
    let (mut r, g) = mk_raft(s, sh);
    let mut cc = ConfChangeV2::default();
    let mut i = 0;
    while i < changes.len() {
        let mut c = ConfChangeSingle::default();
        c.change_type = changes[i].0 as i32;
        c.node_id = changes[i].1;
        cc.changes.push(c);
        i += 1;
    }
    let res = r.apply_conf_change(&cc);
    assert!(res.is_ok());
    r.msgs.clear();
    let mut m = crate::state::msg(raft::eraftpb::MessageType::MsgAppendResponse, from, r.term);
    m.index = sh.base + idx_off;
    let c0 = r.raft_log.committed;
    let res = r.step(m);
    assert!(res.is_ok());
    assert!(r.raft_log.committed >= c0);
    vcover!(r.raft_log.committed > c0, "commit advanced after the membership change");
    crate::state::forget(r);
}
