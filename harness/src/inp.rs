//! Single source of nondeterminism.
//!
//! Under Kani every draw is a fresh `kani::any::<u64>()` stored in a local named
//! `verif_in` inside `Src::u64` - the driver recovers the drawn values, in execution
//! order, from those assignments in the CBMC counterexample trace.  Natively the values
//! come from a vector (the parsed trace), consumed in the same execution order.

pub struct Src {
    #[cfg(not(kani))]
    vals: Vec<u64>,
    pos: usize,
}

impl Src {
    #[cfg(kani)]
    pub fn symbolic() -> Src {
        Src { pos: 0 }
    }

    #[cfg(not(kani))]
    pub fn from_vec(vals: Vec<u64>) -> Src {
        Src { vals, pos: 0 }
    }

    /// Next raw 64-bit value.
    #[inline(never)]
    pub fn u64(&mut self) -> u64 {
        #[cfg(kani)]
        {
            let verif_in: u64 = kani::any();
            self.pos += 1;
            verif_in
        }
        #[cfg(not(kani))]
        {
            let p = self.pos;
            self.pos += 1;
            // values the solver left unconstrained (sliced away) replay as 0
            self.vals.get(p).copied().unwrap_or(0)
        }
    }

    #[inline]
    pub fn bool(&mut self) -> bool {
        self.u64() & 1 == 1
    }

    /// A value in `0..n` (assumed).
    #[inline]
    pub fn below(&mut self, n: u64) -> u64 {
        let v = self.u64();
        crate::macros::assume(v < n);
        v
    }

    /// A value in `lo..=hi` (assumed).
    #[inline]
    pub fn range(&mut self, lo: u64, hi: u64) -> u64 {
        let v = self.u64();
        crate::macros::assume(lo <= v && v <= hi);
        v
    }

    #[inline]
    pub fn usize_below(&mut self, n: usize) -> usize {
        self.below(n as u64) as usize
    }

    #[inline]
    pub fn u8(&mut self) -> u8 {
        (self.u64() & 0xff) as u8
    }

    pub fn consumed(&self) -> usize {
        self.pos
    }
}
