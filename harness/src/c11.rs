//! C11 - quorum arithmetic: commit index and vote tallies are exact.
//! Real `MajorityConfig` / `JointConfig` / `ProgressTracker` functions against counting
//! oracles.  Half sizes concrete, member ids / acked indexes / groups / votes symbolic.

use crate::inp::Src;
use crate::state::{set_of, CAP};
use raft::verif_export::{AckedIndexer, Configuration, HashMap, HashSet, Index, ProgressMap, VoteResult};
use raft::{JointConfig, MajorityConfig, Progress, ProgressTracker};

pub const NMAX: usize = 9;

/// symbolic acknowledgement table over the ids that occur in the two halves
pub struct Acks {
    pub ids: [u64; 2 * NMAX],
    pub idx: [u64; 2 * NMAX],
    pub gid: [u64; 2 * NMAX],
    pub present: [bool; 2 * NMAX],
    pub n: usize,
}

impl Acks {
    fn look(&self, id: u64) -> Option<(u64, u64)> {
        let mut i = 0;
        while i < self.n {
            if self.ids[i] == id {
                return if self.present[i] { Some((self.idx[i], self.gid[i])) } else { None };
            }
            i += 1;
        }
        None
    }
    fn acked(&self, id: u64) -> u64 {
        self.look(id).map_or(0, |p| p.0)
    }
    fn group(&self, id: u64) -> u64 {
        self.look(id).map_or(0, |p| p.1)
    }
}

impl AckedIndexer for Acks {
    fn acked_index(&self, voter_id: u64) -> Option<Index> {
        self.look(voter_id).map(|(index, group_id)| Index { index, group_id })
    }
}

/// Set to true by harnesses that want concrete ids 1..=n (large sets: the symbolic id matching
/// dominates solver time there; the acknowledged indexes stay symbolic).
static CONCRETE_IDS: std::sync::atomic::AtomicBool = std::sync::atomic::AtomicBool::new(false);

pub fn committed_index_concrete_ids(s: &mut Src, n_in: usize, n_out: usize) {
    CONCRETE_IDS.store(true, std::sync::atomic::Ordering::Relaxed);
    committed_index(s, n_in, n_out, false);
}

/// distinct symbolic non-zero ids for one half
fn half_ids(s: &mut Src, n: usize) -> [u64; NMAX] {
    let mut ids = [0u64; NMAX];
    if CONCRETE_IDS.load(std::sync::atomic::Ordering::Relaxed) {
        let mut i = 0;
        while i < n {
            ids[i] = 1 + i as u64;
            i += 1;
        }
        return ids;
    }
    let mut i = 0;
    while i < n {
        let id = s.u64();
        vassume!(id != 0);
        let mut j = 0;
        while j < i {
            vassume!(ids[j] != id);
            j += 1;
        }
        ids[i] = id;
        i += 1;
    }
    ids
}

fn mk_acks(s: &mut Src, a: &[u64; NMAX], na: usize, b: &[u64; NMAX], nb: usize, groups: bool) -> Acks {
    let mut t = Acks { ids: [0; 2 * NMAX], idx: [0; 2 * NMAX], gid: [0; 2 * NMAX], present: [false; 2 * NMAX], n: 0 };
    for (set, n) in [(a, na), (b, nb)] {
        let mut i = 0;
        while i < n {
            let id = set[i];
            // the same id in both halves shares one acknowledgement
            let mut dup = false;
            let mut j = 0;
            while j < t.n {
                if t.ids[j] == id {
                    dup = true;
                }
                j += 1;
            }
            t.ids[t.n] = id;
            t.idx[t.n] = s.u64();
            if CONCRETE_IDS.load(std::sync::atomic::Ordering::Relaxed) {
                // large-set harness: 12-bit acknowledged indexes (stated bound) keep the solver time down
                vassume!(t.idx[t.n] < (1 << 12));
            }
            t.gid[t.n] = if groups { s.below(4) } else { 0 };
            t.present[t.n] = s.bool();
            // a duplicate row is never found by look() (first row wins): harmless
            let _ = dup;
            t.n += 1;
            i += 1;
        }
    }
    t
}

fn qsize(n: usize) -> usize {
    n / 2 + 1
}

/// r is the largest index acknowledged by a majority of `set` (None for the empty set)
fn is_quorum_index(t: &Acks, set: &[u64; NMAX], n: usize, r: u64) -> bool {
    let (mut ge, mut gt) = (0, 0);
    let mut i = 0;
    while i < n {
        let a = t.acked(set[i]);
        if a >= r {
            ge += 1;
        }
        if a > r {
            gt += 1;
        }
        i += 1;
    }
    ge >= qsize(n) && gt < qsize(n)
}

/// largest i such that two voters of different (non-zero) groups acked >= i
fn two_group_index(t: &Acks, set: &[u64; NMAX], n: usize) -> u64 {
    let mut best = 0;
    let mut i = 0;
    while i < n {
        let mut j = 0;
        while j < n {
            if t.group(set[i]) != t.group(set[j]) {
                let a = t.acked(set[i]);
                let b = t.acked(set[j]);
                let m = if a < b { a } else { b };
                if m > best {
                    best = m;
                }
            }
            j += 1;
        }
        i += 1;
    }
    best
}

fn groups_summary(t: &Acks, set: &[u64; NMAX], n: usize) -> (bool, bool) {
    // (every voter has a group, at least two different groups occur)
    let mut all = true;
    let mut two = false;
    let mut i = 0;
    while i < n {
        if t.group(set[i]) == 0 {
            all = false;
        }
        let mut j = 0;
        while j < n {
            if t.group(set[i]) != t.group(set[j]) {
                two = true;
            }
            j += 1;
        }
        i += 1;
    }
    (all, two)
}

fn mk_set(ids: &[u64; NMAX], n: usize) -> HashSet<u64> {
    set_of(&ids[..n])
}

/// commit index of a simple or joint configuration, with and without group commit
pub fn committed_index(s: &mut Src, n_in: usize, n_out: usize, groups: bool) {
    let a = half_ids(s, n_in);
    let b = half_ids(s, n_out);
    let t = mk_acks(s, &a, n_in, &b, n_out, groups);
    let mut jc = JointConfig::new(mk_set(&a, n_in));
    let conf = Configuration::verif_from_parts(mk_set(&a, n_in), mk_set(&b, n_out), HashSet::default(), HashSet::default(), false);
    let jc = conf.voters();
    let (hi, ho) = jc.verif_halves();
    // ---- plain quorum commit
    let (r, flag) = jc.committed_index(false, &t);
    assert!(!flag || (n_in == 0 && n_out == 0));
    let ri = hi.committed_index(false, &t).0;
    let ro = ho.committed_index(false, &t).0;
    if n_in == 0 {
        assert!(ri == u64::MAX);
    } else {
        assert!(is_quorum_index(&t, &a, n_in, ri), "incoming half: not the largest majority-acked index");
    }
    if n_out == 0 {
        assert!(ro == u64::MAX);
    } else {
        assert!(is_quorum_index(&t, &b, n_out, ro), "outgoing half: not the largest majority-acked index");
    }
    assert!(r == if ri < ro { ri } else { ro }, "joint index must be the minimum of both halves");
    // ---- group commit
    let mut saw_lowered = n_in < 3 || !groups;
    if groups {
        let (rg, _) = jc.committed_index(true, &t);
        assert!(rg <= r, "group commit exceeds the plain quorum index");
        let (gi, fi) = hi.committed_index(true, &t);
        if n_in > 0 {
            assert!(gi <= ri);
            let (all, two) = groups_summary(&t, &a, n_in);
            if all && two {
                let x = two_group_index(&t, &a, n_in);
                assert!(gi == if ri < x { ri } else { x }, "group commit: largest quorum index replicated into two groups");
                assert!(fi);
            }
            if all && !two {
                assert!(gi == ri && !fi, "single group behaves like plain quorum commit");
            }
            saw_lowered = saw_lowered || (all && two && gi < ri);
        }
        // outgoing half: same rule; the joint result is the minimum of the halves
        let (go, fo) = ho.committed_index(true, &t);
        if n_out > 0 {
            assert!(go <= ro);
            let (all, two) = groups_summary(&t, &b, n_out);
            if all && two {
                let x = two_group_index(&t, &b, n_out);
                assert!(go == if ro < x { ro } else { x }, "group commit (outgoing half): largest quorum index replicated into two groups");
                assert!(fo);
            }
            if all && !two {
                assert!(go == ro && !fo, "single group behaves like plain quorum commit (outgoing half)");
            }
        }
        assert!(rg == if gi < go { gi } else { go }, "joint group commit must be the minimum of both halves");
    }
    vcover!(saw_lowered, "group commit lowered the index (where the shape admits it)");
    vcover!(n_in == 0 || n_out == 0 || (ri < ro && r > 0), "incoming half decides");
    vcover!(n_in == 0 || n_out == 0 || ro < ri, "outgoing half decides");
    vcover!(r > 0 || (n_in == 0 && n_out == 0), "positive index");
}

/// vote result of a simple or joint configuration
pub fn vote_result(s: &mut Src, n_in: usize, n_out: usize) {
    let a = half_ids(s, n_in);
    let b = half_ids(s, n_out);
    // votes: per row Some(true) / Some(false) / None
    let t = mk_acks(s, &a, n_in, &b, n_out, true);
    let verdict = |id: u64| -> Option<bool> { t.look(id).and_then(|(_, g)| if g == 0 { None } else { Some(g & 1 == 1) }) };
    let conf = Configuration::verif_from_parts(mk_set(&a, n_in), mk_set(&b, n_out), HashSet::default(), HashSet::default(), false);
    let res = conf.voters().vote_result(verdict);
    let half = |set: &[u64; NMAX], n: usize| -> (bool, bool) {
        if n == 0 {
            return (true, false);
        }
        let (mut yes, mut missing) = (0, 0);
        let mut i = 0;
        while i < n {
            match verdict(set[i]) {
                Some(true) => yes += 1,
                None => missing += 1,
                _ => {}
            }
            i += 1;
        }
        (yes >= qsize(n), yes + missing < qsize(n))
    };
    let (wi, li) = half(&a, n_in);
    let (wo, lo) = half(&b, n_out);
    let won = wi && wo;
    let lost = li || lo;
    assert!((res == VoteResult::Won) == won, "won exactly when a majority of each set granted");
    assert!((res == VoteResult::Lost) == lost, "lost exactly when some set can no longer reach a majority");
    assert!((res == VoteResult::Pending) == (!won && !lost));
    vcover!(res == VoteResult::Won, "won");
    vcover!(res == VoteResult::Lost || (n_in + n_out == 0), "lost");
    vcover!(res == VoteResult::Pending || (n_in + n_out == 0), "pending");
}

/// the largest index acknowledged by a majority of `set` (n >= 1)
fn quorum_index(t: &Acks, set: &[u64; NMAX], n: usize) -> u64 {
    let mut i = 0;
    while i < n {
        let c = t.acked(set[i]);
        if is_quorum_index(t, set, n, c) {
            return c;
        }
        i += 1;
    }
    0
}

fn group_index(t: &Acks, set: &[u64; NMAX], n: usize) -> Option<u64> {
    if n == 0 {
        return Some(u64::MAX);
    }
    let r = quorum_index(t, set, n);
    let (all, two) = groups_summary(t, set, n);
    if !all {
        return None; // the property only pins the result when every voter has a group
    }
    if !two {
        return Some(r);
    }
    let x = two_group_index(t, set, n);
    Some(if r < x { r } else { x })
}

/// ProgressTracker::maximal_committed_index with group commit enabled, simple and joint
/// configurations over ids 1..=5: symbolic matched and commit groups (1..=3, every voter has one).
pub fn tracker_gc(s: &mut Src, inc: &'static [u64], out: &'static [u64]) {
    const NONE_P: Option<(u64, Progress)> = None;
    let mut slots: [Option<(u64, Progress)>; CAP] = [NONE_P; CAP];
    let mut t = Acks { ids: [0; 2 * NMAX], idx: [0; 2 * NMAX], gid: [0; 2 * NMAX], present: [false; 2 * NMAX], n: 0 };
    let mut i = 0;
    while i < 5 {
        let mut p = Progress::new(1, 1);
        p.matched = s.u64();
        p.commit_group_id = 1 + s.below(3);
        t.ids[i] = 1 + i as u64;
        t.idx[i] = p.matched;
        t.gid[i] = p.commit_group_id;
        t.present[i] = true;
        slots[i] = Some((1 + i as u64, p));
        i += 1;
    }
    t.n = 5;
    let progress: ProgressMap = HashMap::verif_from_slots(slots);
    let conf = Configuration::verif_from_parts(set_of(inc), set_of(out), HashSet::default(), HashSet::default(), false);
    let no_votes: [Option<(u64, bool)>; CAP] = [None; CAP];
    let mut prs = ProgressTracker::verif_from_parts(progress, conf, HashMap::verif_from_slots(no_votes), 1, true);
    let (r, _) = prs.maximal_committed_index();
    let mut a = [0u64; NMAX];
    let mut b = [0u64; NMAX];
    i = 0;
    while i < inc.len() {
        a[i] = inc[i];
        i += 1;
    }
    i = 0;
    while i < out.len() {
        b[i] = out[i];
        i += 1;
    }
    let plain_i = quorum_index(&t, &a, inc.len());
    let plain_o = if out.is_empty() { u64::MAX } else { quorum_index(&t, &b, out.len()) };
    let plain = if plain_i < plain_o { plain_i } else { plain_o };
    assert!(r <= plain, "group commit exceeds the plain quorum index");
    let gi = group_index(&t, &a, inc.len()).unwrap();
    let go = group_index(&t, &b, out.len()).unwrap();
    assert!(r == if gi < go { gi } else { go }, "group commit through the tracker: largest quorum index replicated into two groups, in each half");
    vcover!(r < plain, "group commit lowered the index");
    vcover!(out.is_empty() || (go < gi && r > 0), "outgoing half decides");
    std::mem::forget(prs);
}

/// ProgressTracker wrappers: maximal_committed_index (real, no stub), tally_votes,
/// has_quorum, quorum_recently_active on concrete incoming / outgoing voter lists over ids
/// 1..=5 (id 5 or others may be tracked without being voters); matched, votes and activity
/// flags symbolic.
pub fn tracker(s: &mut Src, inc: &'static [u64], out: &'static [u64]) {
    const NONE_P: Option<(u64, Progress)> = None;
    let mut slots: [Option<(u64, Progress)>; CAP] = [NONE_P; CAP];
    let ids = [1u64, 2, 3, 4, 5];
    let mut matched = [0u64; 5];
    let mut active = [false; 5];
    let mut i = 0;
    while i < 5 {
        let mut p = Progress::new(1, 1);
        p.matched = s.u64();
        p.recent_active = s.bool();
        matched[i] = p.matched;
        active[i] = p.recent_active;
        slots[i] = Some((ids[i], p));
        i += 1;
    }
    let joint = !out.is_empty();
    let progress: ProgressMap = HashMap::verif_from_slots(slots);
    let conf = Configuration::verif_from_parts(set_of(inc), set_of(out), HashSet::default(), HashSet::default(), false);
    let mut vs: [Option<(u64, bool)>; CAP] = [None; CAP];
    let mut votes = [None; 5];
    i = 0;
    let mut k = 0;
    while i < 5 {
        let v = s.below(3);
        if v != 0 {
            votes[i] = Some(v == 1);
            vs[k] = Some((ids[i], v == 1));
            k += 1;
        }
        i += 1;
    }
    let mut prs = ProgressTracker::verif_from_parts(progress, conf, HashMap::verif_from_slots(vs), 1, false);
    let q = |set: &[u64]| set.len() / 2 + 1;
    let qidx = |set: &[u64], r: u64| -> bool {
        let (mut ge, mut gt) = (0, 0);
        for id in set {
            let a = matched[(*id - 1) as usize];
            if a >= r {
                ge += 1;
            }
            if a > r {
                gt += 1;
            }
        }
        ge >= q(set) && gt < q(set)
    };
    // real maximal_committed_index
    let (r, _) = prs.maximal_committed_index();
    if joint {
        // r = min of the two half indexes: a quorum index of one half, acked by a majority of the other
        let mut ok = false;
        for (x, y) in [(inc, out), (out, inc)] {
            if qidx(x, r) {
                let mut ge = 0;
                for id in y {
                    if matched[(*id - 1) as usize] >= r {
                        ge += 1;
                    }
                }
                if ge >= q(y) {
                    ok = true;
                }
            }
        }
        assert!(ok, "maximal_committed_index (joint)");
    } else {
        assert!(qidx(inc, r), "maximal_committed_index");
    }
    // tally
    let (gr, rj, res) = prs.tally_votes();
    let count = |set: &[u64]| -> (usize, usize) {
        let (mut y, mut m) = (0, 0);
        for id in set {
            match votes[(*id - 1) as usize] {
                Some(true) => y += 1,
                None => m += 1,
                _ => {}
            }
        }
        (y, m)
    };
    let (yi, mi) = count(inc);
    let (wi, li) = (yi >= q(inc), yi + mi < q(inc));
    let (wo, lo) = if joint {
        let (yo, mo) = count(out);
        (yo >= q(out), yo + mo < q(out))
    } else {
        (true, false)
    };
    assert!((res == VoteResult::Won) == (wi && wo), "tally: won exactly when a majority of each set granted");
    assert!((res == VoteResult::Lost) == (li || lo), "tally: lost exactly when some set can no longer reach a majority");
    // granted / rejected count only voters of the configuration
    let mut eg = 0;
    let mut er = 0;
    i = 0;
    while i < 5 {
        let voter = crate::state::has(inc, ids[i]) || crate::state::has(out, ids[i]);
        if voter {
            match votes[i] {
                Some(true) => eg += 1,
                Some(false) => er += 1,
                None => {}
            }
        }
        i += 1;
    }
    assert!(gr == eg && rj == er, "tally counts");
    // quorum_recently_active from the perspective of node 1
    let qa = prs.quorum_recently_active(1);
    let act = |set: &[u64]| -> bool {
        let mut c = 0;
        for id in set {
            if *id == 1 || active[(*id - 1) as usize] {
                c += 1;
            }
        }
        c >= q(set)
    };
    assert!(qa == (act(inc) && (!joint || act(out))), "quorum_recently_active");
    i = 0;
    while i < 5 {
        assert!(prs.get(ids[i]).unwrap().recent_active == (i == 0), "activity flags reset");
        i += 1;
    }
    assert!(raft::majority(0) == 1 && raft::majority(1) == 1 && raft::majority(2) == 2 && raft::majority(5) == 3);
    vcover!(res == VoteResult::Won, "won");
    vcover!(res == VoteResult::Lost, "lost");
    vcover!(qa, "active");
    std::mem::forget(prs);
}
