//! RawNode-level harnesses: the Ready / advance / persist contract.
//! Serves C06 (persist-before-send, term monotone, one vote per term), C07 (exact, ordered,
//! persisted-only hand-off; must_sync; has_ready), C20 (no panic under contract-abiding
//! use, local / stray messages rejected), C15 (snapshot Ready), C01 (apply order).
//!
//! One real RawNode over `VStore`; the harness plays the application: it performs the
//! writes a Ready asks for on the store, then calls advance / advance_append_async +
//! on_persist_ready.  Indexes are concrete per scenario, the rest symbolic.

use crate::inp::Src;
use crate::state::*;
use crate::vstore::{VStore, LMAX};
use raft::eraftpb::{ConfState, Entry, HardState, Message, MessageType, Snapshot, SnapshotMetadata};
use raft::verif_export::VerifRawNodeView;
use raft::{RawNode, Ready, StateRole, CAMPAIGN_TRANSFER};

#[derive(Clone, Copy)]
pub struct RnShape {
    pub raft: Shape,
    /// role recorded at the previous Ready (prev_ss); None = same as the current role
    pub prev_role: Option<StateRole>,
    /// hard state already persisted: (term offset below current: 0 = current term, k = term-k), vote known
    pub prev_term_lag: u64,
    pub prev_vote_same: bool,
    /// outstanding (not yet persisted) ready records: (number, last_entry (idx_off, term), snapshot)
    pub records: &'static [(u64, Option<(u64, u64)>, Option<(u64, u64)>)],
    pub max_number: u64,
    /// max_committed_size_per_ready = 0: committed entries are handed out one per (Light)Ready
    pub page0: bool,
    /// max_apply_unpersisted_log_limit (0 = only persisted entries are handed out for apply)
    pub apply_ahead: u64,
}

impl RnShape {
    pub const fn of(raft: Shape) -> RnShape {
        RnShape { raft, prev_role: None, prev_term_lag: 0, prev_vote_same: true, records: &[], max_number: 0, page0: false, apply_ahead: 0 }
    }
    pub const fn prev_role(mut self, r: StateRole) -> RnShape {
        self.prev_role = Some(r);
        self
    }
    pub const fn page0(mut self) -> RnShape {
        self.page0 = true;
        self
    }
    pub const fn apply_ahead(mut self, k: u64) -> RnShape {
        self.apply_ahead = k;
        self
    }
    pub const fn records(mut self, r: &'static [(u64, Option<(u64, u64)>, Option<(u64, u64)>)], max: u64) -> RnShape {
        self.records = r;
        self.max_number = max;
        self
    }
}

pub fn mk_rawnode(s: &mut Src, sh: &RnShape) -> (RawNode<VStore>, Ghost) {
    let (r, g) = mk_raft(s, &sh.raft);
    let mut hs = HardState::default();
    hs.term = r.term - sh.prev_term_lag;
    hs.vote = if sh.prev_vote_same && sh.prev_term_lag == 0 { r.vote } else { 0 };
    hs.commit = g.committed;
    let mut recs = Vec::with_capacity(4);
    let mut i = 0;
    while i < sh.records.len() {
        let (n, le, sn) = sh.records[i];
        recs.push((n, le.map(|(o, t)| (sh.raft.base + o, t)), sn));
        i += 1;
    }
    let view = VerifRawNodeView {
        prev_leader_id: r.leader_id,
        prev_state: sh.prev_role.unwrap_or(r.state),
        prev_hs: hs,
        max_number: sh.max_number,
        records: recs,
        commit_since_index: g.applied,
    };
    // the durable hard state the application holds
    let mut r = r;
    r.raft_log.store.hs = view.prev_hs.clone();
    if sh.page0 {
        r.set_max_committed_size_per_ready(0);
    }
    r.raft_log.max_apply_unpersisted_log_limit = sh.apply_ahead;
    (RawNode::verif_from_parts(r, view), g)
}

/// What the harness remembers across ready / advance.
pub struct Obs {
    pub prev_hs: HardState,
    pub unstable: [(u64, u64); LMAX],
    pub n_unstable: usize,
    pub commit_since: u64,
    pub role: StateRole,
    pub has_ready: bool,
    pub handed_upto: u64,
}

/// Calls ready() and checks every clause of the Ready contract (C07) and the release rules
/// (C06).  Returns the Ready.
pub fn checked_ready(rn: &mut RawNode<VStore>) -> (Ready, Obs) {
    let v0 = rn.verif_view();
    let mut o = Obs {
        prev_hs: v0.prev_hs.clone(),
        unstable: [(0, 0); LMAX],
        n_unstable: 0,
        commit_since: v0.commit_since_index,
        role: rn.raft.state,
        has_ready: rn.has_ready(),
        handed_upto: v0.commit_since_index,
    };
    {
        let u = rn.raft.raft_log.unstable_entries();
        o.n_unstable = u.len();
        let mut i = 0;
        while i < u.len() {
            o.unstable[i] = (u[i].index, u[i].term);
            i += 1;
        }
    }
    let hs_now = rn.raft.hard_state();
    let has_snap = rn.raft.raft_log.unstable_snapshot().is_some();
    let committed = rn.raft.raft_log.committed;
    let persisted = rn.raft.raft_log.persisted;
    let limit = rn.raft.raft_log.max_apply_unpersisted_log_limit;
    let first = rn.raft.raft_log.first_index();
    let n_msgs = rn.raft.msgs.len();
    let n_rs = rn.raft.read_states.len();

    let rd = rn.ready();

    // --- entries: exactly the unstable suffix
    assert!(rd.entries().len() == o.n_unstable, "Ready.entries is not the unstable suffix");
    let mut i = 0;
    while i < o.n_unstable {
        assert!((rd.entries()[i].index, rd.entries()[i].term) == o.unstable[i], "Ready.entries content");
        i += 1;
    }
    // --- hard state: present iff changed, equal to the current one
    assert!(rd.hs().is_some() == (hs_now != o.prev_hs), "Ready.hs present iff the hard state changed");
    if let Some(h) = rd.hs() {
        assert!(*h == hs_now);
    }
    // --- snapshot
    assert!(!rd.snapshot().is_empty() == has_snap, "Ready.snapshot");
    // --- must_sync
    let tv_changed = hs_now.term != o.prev_hs.term || hs_now.vote != o.prev_hs.vote;
    assert!(rd.must_sync() == (o.n_unstable > 0 || has_snap || tv_changed), "must_sync rule");
    // --- committed entries: the slice (since, min(committed, persisted + limit)], contiguous, in order
    let since = if has_snap { rd.snapshot().get_metadata().index } else { o.commit_since };
    let upper = if committed < persisted.saturating_add(limit) { committed } else { persisted.saturating_add(limit) };
    let ce = rd.committed_entries();
    if has_snap {
        assert!(ce.is_empty(), "snapshot Ready carries committed entries");
    }
    let lo = if since + 1 > first { since + 1 } else { first };
    let mut expect_n = if upper + 1 > lo { (upper + 1 - lo) as usize } else { 0 };
    // pagination: only the limits NO_LIMIT and 0 (= one entry per hand-off) are modelled
    let page = rn.raft.verif_private().max_committed_size_per_ready;
    assert!(page == 0 || page == raft::NO_LIMIT, "harness: unsupported page size");
    if page == 0 && expect_n > 1 {
        expect_n = 1;
    }
    assert!(ce.len() == expect_n, "committed_entries: not exactly the committed, persisted, not yet handed range");
    let mut k = 0;
    while k < ce.len() {
        assert!(ce[k].index == lo + k as u64, "committed_entries not contiguous / not starting right after the last hand-off");
        assert!(rn.raft.raft_log.term(ce[k].index).ok() == Some(ce[k].term), "committed entry differs from the log");
        if limit == 0 {
            assert!(ce[k].index <= persisted, "entry handed out for apply before it was persisted");
        }
        k += 1;
    }
    o.handed_upto = if ce.is_empty() { since } else { ce[ce.len() - 1].index };
    assert!(rn.verif_view().commit_since_index == o.handed_upto, "commit_since_index after ready");
    // --- messages: release rules
    let imm = rd.messages();
    let per = rd.persisted_messages();
    assert!(imm.len() + per.len() == n_msgs, "messages lost or duplicated by ready");
    assert!(rd.read_states().len() == n_rs);
    if rn.raft.state != StateRole::Leader {
        // C06(c): a non-leader releases nothing before its hard state and entries are persisted
        assert!(imm.is_empty(), "non-leader message released before persistence");
    } else {
        // C06(e): what a leader sends immediately depends only on a term that is already durable
        // (messages of a leader whose term / vote are still being persisted wait in persisted_messages)
        let mut k = 0;
        while k < imm.len() {
            assert!(imm[k].term <= o.prev_hs.term, "leader message released although its term (and vote) are not yet persisted");
            k += 1;
        }
    }
    // C06(d): promises are covered by the hard state / entries this Ready persists
    let last = rn.raft.raft_log.last_index();
    let mut k = 0;
    while k < per.len() {
        let m = &per[k];
        let t = m.get_msg_type();
        if t == MessageType::MsgRequestVoteResponse && !m.reject {
            // (a grant of an earlier term is covered by a hard state whose term is already higher:
            // the node can never vote in that term again)
            assert!(hs_now.term > m.term || (hs_now.term == m.term && hs_now.vote == m.to), "vote granted but not recorded in the hard state being persisted");
        }
        if t == MessageType::MsgRequestVote {
            assert!(hs_now.term == m.term && hs_now.vote == ME);
        }
        if t == MessageType::MsgAppendResponse && !m.reject {
            assert!(m.index <= last, "acknowledged more than the log holds");
        }
        k += 1;
    }
    // --- has_ready() told the truth
    let nonempty = rd.ss().is_some()
        || rd.hs().is_some()
        || !rd.read_states().is_empty()
        || !rd.entries().is_empty()
        || !rd.snapshot().is_empty()
        || !rd.committed_entries().is_empty()
        || !imm.is_empty()
        || !per.is_empty();
    assert!(o.has_ready == nonempty, "has_ready() disagrees with what ready() returned");
    (rd, o)
}

/// The application's durable writes for one Ready.
pub fn app_persist(rn: &mut RawNode<VStore>, rd: &Ready) {
    if !rd.snapshot().is_empty() {
        let md = rd.snapshot().get_metadata();
        let (i, t) = (md.index, md.term);
        let cs = md.get_conf_state().clone();
        let st = rn.mut_store();
        st.app_apply_snapshot(i, t);
        st.cs = cs;
    }
    if !rd.entries().is_empty() {
        rn.mut_store().app_append(rd.entries());
    }
    if let Some(h) = rd.hs() {
        rn.mut_store().hs = h.clone();
    }
}

/// advance() after a fully processed Ready, with the post-conditions of C07 / C06.
pub fn checked_advance(rn: &mut RawNode<VStore>, rd: Ready, o: &Obs) {
    let role = rn.raft.state;
    let committed = rn.raft.raft_log.committed;
    let had_entries = !rd.entries().is_empty();
    let last_written = if had_entries { rd.entries()[rd.entries().len() - 1].index } else { 0 };
    let snap_idx = if rd.snapshot().is_empty() { 0 } else { rd.snapshot().get_metadata().index };
    let handed = o.handed_upto;
    let light = rn.advance(rd);
    // hard state and unstable suffix were handed out exactly once
    let v = rn.verif_view();
    assert!(v.prev_hs == rn.raft.hard_state(), "prev_hs after advance");
    assert!(rn.raft.raft_log.unstable_entries().is_empty() && rn.raft.raft_log.unstable_snapshot().is_none(), "unstable not cleared by advance");
    assert!(v.records.is_empty());
    if had_entries && role != StateRole::Leader {
        assert!(rn.raft.raft_log.persisted == last_written, "persisted after advance");
    }
    if role != StateRole::Leader {
        assert!(light.messages().is_empty(), "non-leader produced messages in advance");
    }
    // entries that became applicable through this persistence continue right after the last hand-off
    let ce = light.committed_entries();
    let persisted = rn.raft.raft_log.persisted;
    let mut k = 0;
    while k < ce.len() {
        assert!(ce[k].index == handed + 1 + k as u64, "LightReady committed entries: gap or duplicate");
        assert!(ce[k].index <= rn.raft.raft_log.committed);
        k += 1;
    }
    let upto = if ce.is_empty() { handed } else { ce[ce.len() - 1].index };
    let limit = rn.raft.raft_log.max_apply_unpersisted_log_limit;
    let committed = rn.raft.raft_log.committed;
    let mut bound = if committed < persisted.saturating_add(limit) { committed } else { persisted.saturating_add(limit) };
    if rn.raft.verif_private().max_committed_size_per_ready == 0 && bound > handed + 1 {
        bound = handed + 1; // one entry per hand-off
    }
    assert!(upto == if bound > handed { bound } else { handed }, "LightReady did not hand out everything committed and persisted");
    // advance() marks what the *Ready* handed out as applied
    if handed > 0 {
        assert!(rn.raft.raft_log.applied == handed, "advance() must mark exactly what the Ready handed out as applied");
    }
    if snap_idx > 0 {
        assert!(rn.raft.raft_log.applied == snap_idx, "after a snapshot Ready the applied index is the snapshot index");
    }
    assert_li(&rn.raft);
    std::mem::forget(light);
}

// ---------------------------------------------------------------------------------------
// scenarios

/// Scenario input.  A plain struct with a kind tag (not an enum with payload: values read out of
/// a by-value enum payload - a union - do not constant-propagate in CBMC).
#[derive(Clone, Copy)]
pub struct Input {
    pub kind: u8,
    pub term: u64,
    pub idx_off: u64,
    pub log_term: u64,
    pub ents: &'static [u64],
    pub commit: u64,
    pub dlen: usize,
    pub index: u64,
    pub sterm: u64,
}

pub const K_NONE: u8 = 0;
pub const K_VOTE: u8 = 1;
pub const K_APPEND: u8 = 2;
pub const K_HEARTBEAT: u8 = 3;
pub const K_TICK: u8 = 4;
pub const K_HUP: u8 = 5;
pub const K_PROPOSE: u8 = 6;
pub const K_SNAPSHOT: u8 = 7;
pub const K_APPRESP: u8 = 8;

impl Input {
    pub const NONE: Input = Input { kind: K_NONE, term: 0, idx_off: 0, log_term: 0, ents: &[], commit: 0, dlen: 0, index: 0, sterm: 0 };
    pub const HUP: Input = Input { kind: K_HUP, ..Input::NONE };
    pub const TICK: Input = Input { kind: K_TICK, ..Input::NONE };
    /// MsgRequestVote from 2 with an up-to-date log, at `term`
    pub const fn vote(term: u64) -> Input {
        Input { kind: K_VOTE, term, ..Input::NONE }
    }
    /// MsgAppend from 2 at `term`: prev = (idx_off, log_term), entry terms, commit
    pub const fn append(term: u64, idx_off: u64, log_term: u64, ents: &'static [u64], commit: u64) -> Input {
        Input { kind: K_APPEND, term, idx_off, log_term, ents, commit, ..Input::NONE }
    }
    pub const fn heartbeat(term: u64, commit: u64) -> Input {
        Input { kind: K_HEARTBEAT, term, commit, ..Input::NONE }
    }
    pub const fn propose(dlen: usize) -> Input {
        Input { kind: K_PROPOSE, dlen, ..Input::NONE }
    }
    /// MsgAppendResponse (ack) from 2 at `term` for `index`
    pub const fn appresp(term: u64, index: u64) -> Input {
        Input { kind: K_APPRESP, term, index, ..Input::NONE }
    }
    /// MsgSnapshot from 2 at `term` with metadata (index, sterm) and the shape's configuration
    pub const fn snapshot(term: u64, index: u64, sterm: u64) -> Input {
        Input { kind: K_SNAPSHOT, term, index, sterm, ..Input::NONE }
    }
}

pub fn apply_input(rn: &mut RawNode<VStore>, sh: &Shape, inp: &Input) {
    let (term, idx_off, log_term, ents, commit, dlen, index, sterm) =
        (inp.term, inp.idx_off, inp.log_term, inp.ents, inp.commit, inp.dlen, inp.index, inp.sterm);
    if inp.kind == K_VOTE {
        let mut m = msg(MessageType::MsgRequestVote, 2, term);
        m.index = rn.raft.raft_log.last_index();
        m.log_term = rn.raft.raft_log.last_term();
        let r = rn.step(m);
        assert!(r.is_ok());
    } else if inp.kind == K_APPEND {
        let mut m = msg(MessageType::MsgAppend, 2, term);
        m.index = sh.base + idx_off;
        m.log_term = log_term;
        m.commit = commit;
        let mut j = 0;
        while j < ents.len() {
            let mut e = Entry::default();
            e.index = m.index + 1 + j as u64;
            e.term = ents[j];
            m.entries.push(e);
            j += 1;
        }
        let r = rn.step(m);
        assert!(r.is_ok());
    } else if inp.kind == K_HEARTBEAT {
        let mut m = msg(MessageType::MsgHeartbeat, 2, term);
        m.commit = commit;
        let r = rn.step(m);
        assert!(r.is_ok());
    } else if inp.kind == K_TICK {
        rn.tick();
    } else if inp.kind == K_HUP {
        let r = rn.campaign();
        assert!(r.is_ok());
    } else if inp.kind == K_PROPOSE {
        let r = rn.propose(vec![], vec![7u8; dlen]);
        assert!(r.is_ok());
    } else if inp.kind == K_APPRESP {
        let mut m = msg(MessageType::MsgAppendResponse, 2, term);
        m.index = sh.base + index;
        let r = rn.step(m);
        assert!(r.is_ok());
    } else if inp.kind == K_SNAPSHOT {
        let mut m = msg(MessageType::MsgSnapshot, 2, term);
        let mut snap = Snapshot::default();
        let mut md = SnapshotMetadata::default();
        md.index = index;
        md.term = sterm;
        md.conf_state = Some(conf_state_of(sh));
        snap.metadata = Some(md);
        m.snapshot = Some(snap);
        let r = rn.step(m);
        assert!(r.is_ok());
    }
}

/// input -> ready -> application persists -> advance, all clauses checked.
pub fn cycle(s: &mut Src, sh: &RnShape, inp: &Input, second: &Input) {
    let (mut rn, g) = mk_rawnode(s, sh);
    let term0 = rn.raft.term;
    apply_input(&mut rn, &sh.raft, inp);
    apply_input(&mut rn, &sh.raft, second);
    assert!(rn.raft.term >= term0, "term decreased");
    let (rd, o) = checked_ready(&mut rn);
    app_persist(&mut rn, &rd);
    checked_advance(&mut rn, rd, &o);
    // nothing is left over: a second ready right away has nothing new to persist
    assert!(rn.raft.raft_log.unstable_entries().is_empty());
    let hs = rn.raft.hard_state();
    assert!(rn.verif_view().prev_hs == hs);
    vcover!(true, "cycle completed");
    forget(rn);
}

/// input -> (ready -> persist -> advance) repeated `rounds` times: with pagination or apply-ahead
/// the committed entries arrive in several hand-offs; every hand-off is checked to continue right
/// after the previous one, and after the last round everything committed and allowed has been
/// handed out exactly once.
pub fn cycle_drain(s: &mut Src, sh: &RnShape, inp: &Input, rounds: usize) {
    let (mut rn, g) = mk_rawnode(s, sh);
    apply_input(&mut rn, &sh.raft, inp);
    let mut k = 0;
    while k < rounds {
        let (rd, o) = checked_ready(&mut rn);
        app_persist(&mut rn, &rd);
        checked_advance(&mut rn, rd, &o);
        k += 1;
    }
    let l = &rn.raft.raft_log;
    let ahead = l.persisted.saturating_add(l.max_apply_unpersisted_log_limit);
    let bound = if l.committed < ahead { l.committed } else { ahead };
    assert!(rn.verif_view().commit_since_index == bound, "after draining, everything committed (and persisted) has been handed out");
    assert!(!rn.has_ready(), "nothing left, but has_ready() is true");
    vcover!(true, "drained");
    forget(rn);
}

/// Asynchronous persistence, the plain case: input -> ready -> the application writes ->
/// advance_append_async (nothing may count as persisted yet) -> on_persist_ready(number) ->
/// second ready / advance hands out what became applicable, in order, exactly once.
pub fn cycle_async(s: &mut Src, sh: &RnShape, inp: &Input) {
    let (mut rn, g) = mk_rawnode(s, sh);
    apply_input(&mut rn, &sh.raft, inp);
    let persisted0 = rn.raft.raft_log.persisted;
    let (rd, o) = checked_ready(&mut rn);
    app_persist(&mut rn, &rd);
    let num = rd.number();
    let n_ents = rd.entries().len();
    let last_written = if n_ents > 0 { rd.entries()[n_ents - 1].index } else { 0 };
    let snap_idx = if rd.snapshot().is_empty() { 0 } else { rd.snapshot().get_metadata().index };
    let handed1 = o.handed_upto;
    rn.advance_append_async(rd);
    {
        let v = rn.verif_view();
        assert!(rn.raft.raft_log.persisted == persisted0, "advance_append_async counted something as persisted");
        assert!(rn.raft.raft_log.unstable_entries().is_empty() && rn.raft.raft_log.unstable_snapshot().is_none(), "entries / snapshot handed out twice");
        assert!(v.records.len() == 1 && v.records[0].0 == num, "outstanding Ready not recorded");
        assert!(v.prev_hs == rn.raft.hard_state());
        assert!(v.commit_since_index == handed1);
    }
    rn.on_persist_ready(num);
    let p1 = rn.raft.raft_log.persisted;
    let exp = if last_written > 0 { last_written } else if snap_idx > persisted0 { snap_idx } else { persisted0 };
    assert!(p1 == exp, "persisted index after the persistence notice");
    assert!(rn.verif_view().records.is_empty(), "record outlived its persistence notice");
    // the application reports what it applied so far
    rn.advance_apply_to(handed1);
    let (rd2, o2) = checked_ready(&mut rn);
    assert!(rd2.entries().is_empty() && rd2.snapshot().is_empty(), "already written data handed out again");
    app_persist(&mut rn, &rd2);
    checked_advance(&mut rn, rd2, &o2);
    let l = &rn.raft.raft_log;
    let bound = if l.committed < l.persisted { l.committed } else { l.persisted };
    assert!(rn.verif_view().commit_since_index == bound, "everything committed and persisted has been handed out");
    assert!(!rn.has_ready());
    vcover!(true, "done");
    forget(rn);
}

/// Asynchronous persistence: a Ready is in flight (its entries are written to the store but
/// the fsync notice is outstanding), then a new leader's append truncates those entries, then
/// the stale notice arrives.  The persisted index must not move onto entries that are not
/// durable, and nothing unpersisted may be handed out for apply (C07 / C04 / C14).
pub fn async_overwrite(s: &mut Src, sh: &RnShape, inp: &Input, notice: u64) {
    let (mut rn, g) = mk_rawnode(s, sh);
    apply_input(&mut rn, &sh.raft, inp);
    rn.on_persist_ready(notice);
    // what is durable: the store as the application wrote it (the new entries are not yet written)
    let persisted = rn.raft.raft_log.persisted;
    let first_unwritten = rn.raft.raft_log.unstable.offset;
    assert!(persisted < first_unwritten, "persisted index covers entries that were never written");
    let (rd, o) = checked_ready(&mut rn);
    let ce = rd.committed_entries();
    let mut k = 0;
    while k < ce.len() {
        assert!(ce[k].index < first_unwritten, "an unpersisted entry was handed out for apply");
        k += 1;
    }
    app_persist(&mut rn, &rd);
    checked_advance(&mut rn, rd, &o);
    vcover!(true, "done");
    forget(rn);
}

/// RawNode::step must refuse local message types and responses from unknown peers without
/// touching any state (C20).
pub fn step_rejects(s: &mut Src, sh: &RnShape) {
    let (mut rn, g) = mk_rawnode(s, sh);
    let hs0 = rn.raft.hard_state();
    let v0 = rn.verif_view();
    let local = [MessageType::MsgHup, MessageType::MsgBeat, MessageType::MsgUnreachable, MessageType::MsgSnapStatus, MessageType::MsgCheckQuorum];
    let mut i = 0;
    while i < local.len() {
        let m = msg(local[i], 2, 0);
        assert!(rn.step(m) == Err(raft::Error::StepLocalMsg), "local message type accepted by RawNode::step");
        i += 1;
    }
    let resp = [
        MessageType::MsgAppendResponse,
        MessageType::MsgRequestVoteResponse,
        MessageType::MsgHeartbeatResponse,
        MessageType::MsgRequestPreVoteResponse,
    ];
    i = 0;
    while i < resp.len() {
        let m = msg(resp[i], 9, rn.raft.term);
        assert!(rn.step(m) == Err(raft::Error::StepPeerNotFound), "response from a non-member accepted");
        i += 1;
    }
    assert!(rn.raft.hard_state() == hs0 && rn.verif_view() == v0 && rn.raft.msgs.is_empty(), "rejected message changed state");
    assert!(rn.raft.raft_log.last_index() == g.last() && rn.raft.raft_log.committed == g.committed);
    vcover!(true, "done");
    forget(rn);
}

pub fn dbg_persist(s: &mut Src, sh: &RnShape) {
    let (mut rn, g) = mk_rawnode(s, sh);
    apply_input(&mut rn, &sh.raft, &Input::vote(7));
    let rd = rn.ready();
    if rd.entries().len() != 1 {
        assert!(crate::c02::marker_a() == 3);
    }
    app_persist(&mut rn, &rd);
    let num = rd.number();
    rn.advance_append_async(rd);
    if rn.raft.raft_log.unstable.offset != 4 {
        assert!(crate::c02::marker_b() == 3);
    }
    rn.on_persist_ready(num);
    if rn.raft.raft_log.persisted != 3 {
        assert!(crate::c02::marker_c() == 3);
    }
    forget(rn);
}

#[derive(Default, Debug, PartialEq)]
struct Rec {
    number: u64,
    last_entry: Option<(u64, u64)>,
    snapshot: Option<(u64, u64)>,
}
pub fn dbg_deque(_s: &mut Src) {
    use std::collections::VecDeque;
    let mut q: VecDeque<Rec> = VecDeque::new();
    let mut r = Rec { number: 1, ..Default::default() };
    r.last_entry = Some((3, 2));
    q.push_back(r);
    let (mut index, mut term) = (0, 0);
    while let Some(record) = q.front() {
        if record.number > 1 {
            break;
        }
        let record = q.pop_front().unwrap();
        if let Some((i, t)) = record.last_entry {
            index = i;
            term = t;
        }
    }
    if index != 3 {
        assert!(crate::c02::marker_a() == 3);
    }
    if term != 2 {
        assert!(crate::c02::marker_b() == 3);
    }
}
pub fn dbg_deque2(_s: &mut Src) {
    // same without the deque
    let mut r = Rec { number: 1, ..Default::default() };
    r.last_entry = Some((3, 2));
    let b = Box::new(r);
    let (mut index, mut term) = (0, 0);
    if let Some((i, t)) = b.last_entry {
        index = i;
        term = t;
    }
    if index != 3 {
        assert!(crate::c02::marker_a() == 3);
    }
    if term != 2 {
        assert!(crate::c02::marker_b() == 3);
    }
}

pub fn dbg_persist2(s: &mut Src, sh: &RnShape) {
    let (mut rn, g) = mk_rawnode(s, sh);
    if rn.raft.raft_log.unstable_entries()[0].index != 3 {
        assert!(crate::c02::marker_a() == 3);
    }
    let v = rn.raft.raft_log.unstable_entries().to_vec();
    if v[0].index != 3 || v[0].term != 2 {
        assert!(crate::c02::marker_b() == 3);
    }
    let rd = rn.ready();
    if rd.entries()[0].index != 3 || rd.entries()[0].term != 2 {
        assert!(crate::c02::marker_c() == 3);
    }
    forget(rn);
    forget(v);
    forget(rd);
}

pub fn dbg_app(s: &mut Src, sh: &RnShape) {
    let (mut rn, g) = mk_rawnode(s, sh);
    apply_input(&mut rn, &sh.raft, &Input::append(5, 3, 3, &[5], 4));
    if rn.raft.raft_log.last_index() != 4 {
        assert!(crate::c02::marker_a() == 3);
    }
    if rn.raft.raft_log.committed != 4 {
        assert!(crate::c02::marker_b() == 3);
    }
    if rn.raft.raft_log.unstable_entries().len() != 1 || rn.raft.msgs.len() != 1 {
        assert!(crate::c02::marker_c() == 3);
    }
    forget(rn);
}

pub fn dbg_app2(s: &mut Src, sh: &RnShape) {
    let (mut rn, g) = mk_rawnode(s, sh);
    apply_input(&mut rn, &sh.raft, &Input::append(5, 3, 3, &[5], 4));
    let rd = rn.ready();
    if rd.committed_entries().len() != 2 || rd.entries().len() != 1 {
        assert!(crate::c02::marker_a() == 3);
    }
    app_persist(&mut rn, &rd);
    if rn.raft.raft_log.store.len != 4 || rn.raft.raft_log.store.terms[3] != 5 {
        assert!(crate::c02::marker_b() == 3);
    }
    let light = rn.advance(rd);
    if rn.raft.raft_log.persisted != 4 || light.committed_entries().len() != 1 {
        assert!(crate::c02::marker_c() == 3);
    }
    forget(rn);
    forget(light);
}

// ---------------------------------------------------------------------------------------
// restart from a durable image

/// `RawNode::new` on a durable image (hard state, snapshot point, entries, configuration): the
/// restarted node is a follower whose term, vote and commit are exactly the durable hard state
/// (so nothing it promised before the crash - it only ever released promises after persisting
/// them, C06 per-Ready clauses - is forgotten), nothing at or below commit is altered, apply
/// resumes right after the configured applied index, and no Ready is pending.
pub fn restart(s: &mut Src, base: u64, n: usize, commit_off: u64, applied_off: u64, learner: bool) {
    restart_conf(s, base, n, commit_off, applied_off, learner, false)
}

pub fn restart_conf(s: &mut Src, base: u64, n: usize, commit_off: u64, applied_off: u64, learner: bool, joint: bool) {
    use raft::Config;
    let mut st = VStore::new(base, if base == 0 { 0 } else { 1 });
    let mut prev = st.snap_term;
    let mut terms = [0u64; LMAX];
    let mut i = 0;
    while i < n {
        let t = s.u64();
        vassume!(t >= prev && t >= 1 && t < TERM_MAX);
        terms[i] = t;
        st.push(t);
        prev = t;
        i += 1;
    }
    let last_term = prev;
    let mut hs = HardState::default();
    hs.term = s.u64();
    hs.vote = s.below(4);
    hs.commit = base + commit_off;
    vassume!(hs.term >= last_term && hs.term < TERM_MAX);
    st.hs = hs.clone();
    let mut cs = ConfState::default();
    cs.voters = vec![1, 2, 3];
    if learner {
        cs.learners = vec![4];
    }
    if joint {
        // mid-change image: {1,2}&&{1,2,3}, learner 4, voter 3 staged to become a learner
        cs.voters = vec![1, 2];
        cs.voters_outgoing = vec![1, 2, 3];
        cs.learners_next = vec![3];
        cs.auto_leave = true;
    }
    st.cs = cs;
    let mut cfg = Config::new(ME);
    cfg.election_tick = ELECTION_TICK;
    cfg.heartbeat_tick = HEARTBEAT_TICK;
    cfg.max_inflight_msgs = 2;
    cfg.applied = base + applied_off;
    cfg.check_quorum = s.bool();
    cfg.pre_vote = s.bool();
    let lg = logger();
    let res = RawNode::new(&cfg, st, &lg);
    assert!(res.is_ok(), "restart from a consistent durable image failed");
    let rn = res.unwrap();
    let r = &rn.raft;
    assert!(r.term == hs.term && r.vote == hs.vote, "term / vote after restart differ from the durable hard state");
    assert!(r.raft_log.committed == hs.commit, "commit after restart");
    assert!(r.raft_log.applied == base + applied_off, "applied after restart");
    assert!(r.state == StateRole::Follower && r.leader_id == 0);
    assert!(r.raft_log.last_index() == base + n as u64 && r.raft_log.persisted == base + n as u64);
    i = 0;
    while i < n {
        assert!(r.raft_log.term(base + 1 + i as u64).ok() == Some(terms[i]), "log altered by restart");
        i += 1;
    }
    assert!(r.promotable() && r.msgs.is_empty());
    assert!(r.prs().conf().voters().contains(1) && r.prs().conf().voters().contains(3));
    assert!(r.prs().get(4).is_some() == learner);
    {
        use crate::c12::{mask, read};
        let c1 = read(r.prs());
        let lrn: &[u64] = if learner { &[4] } else { &[] };
        if joint {
            assert!(c1.inc == mask(&[1, 2]) && c1.out == mask(&[1, 2, 3]) && c1.lrn == mask(lrn) && c1.nxt == mask(&[3]) && c1.auto, "joint configuration not reproduced by restart");
        } else {
            assert!(c1.inc == mask(&[1, 2, 3]) && c1.out == 0 && c1.lrn == mask(lrn) && c1.nxt == 0, "configuration not reproduced by restart");
        }
    }
    let v = rn.verif_view();
    assert!(v.prev_hs == hs && v.commit_since_index == base + applied_off && v.records.is_empty());
    // has_ready exactly when committed entries are waiting to be applied
    assert!(rn.has_ready() == (hs.commit > base + applied_off), "has_ready after restart");
    vcover!(true, "restarted");
    forget(rn);
}
