//! C08 - ReadIndex in Safe mode: a read state is produced only after a joint quorum of the
//! current configuration acknowledged a heartbeat carrying the request's context, it carries
//! the commit index recorded when the request arrived, and it goes only to the requester.

use crate::inp::Src;
use crate::state::*;
use raft::eraftpb::{Entry, Message, MessageType};
use raft::StateRole;

fn read_msg(from: u64, ctx: u8) -> Message {
    let mut m = msg(MessageType::MsgReadIndex, from, 0);
    let mut e = Entry::default();
    e.data = vec![ctx];
    m.entries.push(e);
    m
}

fn hb_resp(from: u64, term: u64, ctx: Option<u8>) -> Message {
    let mut m = msg(MessageType::MsgHeartbeatResponse, from, term);
    if let Some(c) = ctx {
        m.context = vec![c];
    }
    m
}

/// Leader: request (local if `req_from == ME/0`, else forwarded by `req_from`), then up to two
/// heartbeat responses `(from, ctx)`.  `expect_release`: whether the acks form a quorum.
pub fn leader_read(s: &mut Src, sh: &Shape, req_from: u64, acks: &[(u64, u8)], expect_release: bool) {
    let (mut r, g) = mk_raft(s, sh);
    let term0 = r.term;
    let commit0 = g.committed;
    let servable = g.term_at(commit0) == Some(term0);
    let singleton = sh.voters.len() == 1 && sh.outgoing.is_empty();
    let res = r.step(read_msg(req_from, 7));
    assert!(res.is_ok());
    let local = req_from == 0 || req_from == ME;
    if !servable {
        // a leader that has not committed in its own term must not serve reads
        assert!(r.read_states.is_empty() && r.msgs.is_empty() && r.pending_read_count() == 0, "read served before the leader committed in its term");
        crate::macros::reached_end();
        forget(r);
        return;
    }
    if singleton {
        assert!(r.pending_read_count() == 0);
        if local {
            assert!(r.read_states.len() == 1 && r.read_states[0].index == commit0 && r.read_states[0].request_ctx.len() == 1);
        } else {
            assert!(r.read_states.is_empty() && r.msgs.len() == 1 && r.msgs[0].get_msg_type() == MessageType::MsgReadIndexResp && r.msgs[0].to == req_from && r.msgs[0].index == commit0);
        }
        crate::macros::reached_end();
        forget(r);
        return;
    }
    // pending, heartbeat with the context to every peer, no answer yet
    assert!(r.read_states.is_empty(), "read answered without a quorum round");
    assert!(r.pending_read_count() == 1);
    let (_, n) = sh.ids();
    assert!(r.msgs.len() == n - 1);
    let mut k = 0;
    while k < r.msgs.len() {
        let h = &r.msgs[k];
        assert!(h.get_msg_type() == MessageType::MsgHeartbeat && h.context.len() == 1 && h.context[0] == 7);
        k += 1;
    }
    r.msgs.clear();
    // entries committed after the request must not lower / raise the recorded index: advance commit artificially? no -
    // the recorded index is whatever commit was at request time
    let mut i = 0;
    while i < acks.len() {
        let (from, ctx) = acks[i];
        let res = r.step(hb_resp(from, term0, Some(ctx)));
        assert!(res.is_ok());
        i += 1;
    }
    let mut resp = 0;
    k = 0;
    while k < r.msgs.len() {
        if r.msgs[k].get_msg_type() == MessageType::MsgReadIndexResp {
            resp += 1;
            assert!(!local && r.msgs[k].to == req_from && r.msgs[k].index == commit0, "read response to the wrong node / with the wrong index");
            assert!(r.msgs[k].entries.len() == 1 && r.msgs[k].entries[0].data.len() == 1 && r.msgs[k].entries[0].data[0] == 7);
        }
        k += 1;
    }
    if expect_release {
        assert!(r.pending_read_count() == 0);
        if local {
            assert!(r.read_states.len() == 1 && r.read_states[0].index == commit0 && r.read_states[0].request_ctx[0] == 7 && resp == 0, "read state index must be the commit index recorded at request time");
        } else {
            assert!(r.read_states.is_empty() && resp == 1, "a forwarded read is answered to its requester only");
        }
    } else {
        assert!(r.read_states.is_empty() && resp == 0 && r.pending_read_count() == 1, "read released without a joint quorum of acknowledgements");
    }
    crate::macros::reached_end();
    forget(r);
}

/// A leader with a pending read loses its term: the pending read must be forgotten (it may
/// never be answered later with the stale index).
pub fn read_then_stepdown(s: &mut Src, sh: &Shape) {
    let (mut r, g) = mk_raft(s, sh);
    let term0 = r.term;
    let res = r.step(read_msg(0, 7));
    assert!(res.is_ok());
    assert!(r.pending_read_count() == 1);
    r.msgs.clear();
    let mut m = msg(MessageType::MsgHeartbeat, 2, term0 + 2);
    m.commit = 0;
    let res = r.step(m);
    assert!(res.is_ok());
    assert!(r.state == StateRole::Follower && r.term == term0 + 2);
    assert!(r.pending_read_count() == 0 && r.read_states.is_empty(), "pending read survived the loss of leadership");
    // a late ack for the old request does nothing
    let res = r.step(hb_resp(3, term0 + 2, Some(7)));
    assert!(res.is_ok());
    assert!(r.read_states.is_empty());
    crate::macros::reached_end();
    forget(r);
}

/// Follower side: forwards MsgReadIndex to its leader; a MsgReadIndexResp becomes a read state
/// carrying m.index; commit moves only if the local term at that index equals m.term.
pub fn follower_read(s: &mut Src, sh: &Shape) {
    let (mut r, g) = mk_raft(s, sh);
    vassume!(r.leader_id == 2 || r.leader_id == 0);
    let lead = r.leader_id;
    let res = r.step(read_msg(0, 9));
    assert!(res.is_ok());
    if lead == 0 {
        assert!(r.msgs.is_empty());
    } else {
        assert!(r.msgs.len() == 1 && r.msgs[0].to == lead && r.msgs[0].get_msg_type() == MessageType::MsgReadIndex && r.msgs[0].term == 0);
        assert!(r.msgs[0].entries.len() == 1 && r.msgs[0].entries[0].data[0] == 9);
    }
    assert!(r.read_states.is_empty());
    r.msgs.clear();
    let mut resp = msg(MessageType::MsgReadIndexResp, 2, r.term);
    resp.index = s.u64();
    let mut e = Entry::default();
    e.data = vec![9];
    resp.entries.push(e);
    let ridx = resp.index;
    vassume!(r.term >= 1);
    let t = r.term;
    let res = r.step(resp);
    assert!(res.is_ok());
    assert!(r.read_states.len() == 1 && r.read_states[0].index == ridx && r.read_states[0].request_ctx[0] == 9);
    let c1 = r.raft_log.committed;
    assert!(c1 >= g.committed);
    if c1 > g.committed {
        assert!(c1 == ridx && g.term_at(ridx) == Some(t), "commit by read response without a matching term");
    }
    vcover!(c1 > g.committed, "commit advanced by read response");
    forget(r);
}

/// Two different reads pending (A local, B forwarded by 3); a quorum acknowledges A only:
/// A is released, B must stay pending (it was registered after the heartbeat round the
/// acknowledgement belongs to); a quorum on B then answers B to its requester.
pub fn read_two_pending(s: &mut Src, sh: &Shape) {
    let (mut r, g) = mk_raft(s, sh);
    let term0 = r.term;
    let commit0 = g.committed;
    let res = r.step(read_msg(0, 7));
    assert!(res.is_ok());
    r.msgs.clear();
    let res = r.step(read_msg(3, 8));
    assert!(res.is_ok());
    r.msgs.clear();
    assert!(r.pending_read_count() == 2);
    let res = r.step(hb_resp(2, term0, Some(7)));
    assert!(res.is_ok());
    assert!(r.read_states.len() == 1 && r.read_states[0].index == commit0 && r.read_states[0].request_ctx[0] == 7);
    assert!(r.pending_read_count() == 1, "a read registered after the acknowledged heartbeat round was released with it");
    let mut k = 0;
    while k < r.msgs.len() {
        assert!(r.msgs[k].get_msg_type() != MessageType::MsgReadIndexResp, "later read answered by the acknowledgement of an earlier round");
        k += 1;
    }
    r.msgs.clear();
    let res = r.step(hb_resp(2, term0, Some(8)));
    assert!(res.is_ok());
    assert!(r.pending_read_count() == 0 && r.read_states.len() == 1);
    let mut resp = 0;
    k = 0;
    while k < r.msgs.len() {
        if r.msgs[k].get_msg_type() == MessageType::MsgReadIndexResp {
            resp += 1;
            assert!(r.msgs[k].to == 3 && r.msgs[k].index == commit0 && r.msgs[k].entries[0].data[0] == 8);
        }
        k += 1;
    }
    assert!(resp == 1);
    crate::macros::reached_end();
    forget(r);
}

/// The same context requested locally and - while that is pending - forwarded by a follower:
/// the second is a duplicate (dropped); queue and pending map stay consistent, so later reads
/// are served and nothing panics.
pub fn read_same_ctx_two_origins(s: &mut Src, sh: &Shape) {
    let (mut r, g) = mk_raft(s, sh);
    let term0 = r.term;
    let commit0 = g.committed;
    let res = r.step(read_msg(0, 7));
    assert!(res.is_ok());
    r.msgs.clear();
    let res = r.step(read_msg(3, 7));
    assert!(res.is_ok());
    assert!(r.pending_read_count() == 1, "a duplicate context must not be queued twice");
    r.msgs.clear();
    let res = r.step(hb_resp(2, term0, Some(7)));
    assert!(res.is_ok());
    assert!(r.pending_read_count() == 0 && r.read_states.len() == 1 && r.read_states[0].index == commit0);
    r.msgs.clear();
    let res = r.step(read_msg(0, 9));
    assert!(res.is_ok());
    r.msgs.clear();
    let res = r.step(hb_resp(2, term0, Some(9)));
    assert!(res.is_ok());
    assert!(r.read_states.len() == 2 && r.read_states[1].index == commit0 && r.read_states[1].request_ctx[0] == 9 && r.pending_read_count() == 0);
    crate::macros::reached_end();
    forget(r);
}

/// Duplicate read contexts: A, B, A again while A is pending (the duplicate must be ignored),
/// both served by one quorum round on B, then a fresh read C is served too (no leftover entry
/// in the queue without a pending record - that would trip an internal check).
pub fn read_dups(s: &mut Src, sh: &Shape) {
    let (mut r, g) = mk_raft(s, sh);
    let term0 = r.term;
    let commit0 = g.committed;
    // (three explicit calls: `for x in [..]` moves the values through array::IntoIter's MaybeUninit)
    let res = r.step(read_msg(3, 7));
    assert!(res.is_ok());
    r.msgs.clear();
    let res = r.step(read_msg(3, 8));
    assert!(res.is_ok());
    r.msgs.clear();
    let res = r.step(read_msg(3, 7));
    assert!(res.is_ok());
    assert!(r.pending_read_count() == 2, "a duplicate context must not be queued twice");
    r.msgs.clear();
    let res = r.step(hb_resp(2, term0, Some(8)));
    assert!(res.is_ok());
    assert!(r.pending_read_count() == 0, "a quorum on the later request releases the earlier one too");
    let mut resp = 0;
    let mut k = 0;
    while k < r.msgs.len() {
        if r.msgs[k].get_msg_type() == MessageType::MsgReadIndexResp {
            resp += 1;
            assert!(r.msgs[k].to == 3 && r.msgs[k].index == commit0);
        }
        k += 1;
    }
    assert!(resp == 2, "exactly the two distinct requests are answered");
    r.msgs.clear();
    let res = r.step(read_msg(0, 9));
    assert!(res.is_ok());
    r.msgs.clear();
    let res = r.step(hb_resp(2, term0, Some(9)));
    assert!(res.is_ok());
    assert!(r.read_states.len() == 1 && r.read_states[0].index == commit0 && r.pending_read_count() == 0);
    crate::macros::reached_end();
    forget(r);
}
