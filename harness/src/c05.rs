//! One real `Raft::step(MsgAppend)` / `MsgHeartbeat` on a non-leader from an arbitrary
//! valid state.  Serves C05-fapp (log matching / truncation exactly at the first
//! conflict / committed prefix immutable), C04-foll (follower commit rule), C01-mono,
//! C13 reply well-formedness and the C16 lower-term reply rule.

use crate::inp::Src;
use crate::state::*;
use crate::vstore::LMAX;
use raft::eraftpb::{Entry, Message, MessageType};
use raft::StateRole;

/// Oracle for `find_conflict_by_term`: largest i <= index with term(i) <= term, scanning
/// a plain sequence model backwards; stops at the snapshot point.
fn hint_oracle(g: &Ghost, index: u64, term: u64) -> (u64, u64) {
    let mut i = index;
    loop {
        let t = g.term_at(i).unwrap();
        if t <= term {
            return (i, t);
        }
        if i == g.base {
            // nothing at or above the snapshot point qualifies: the implementation keeps
            // walking to base-1, whose term is reported as 0
            return (i - 1, 0);
        }
        i -= 1;
    }
}

/// `sh.fixed_terms` fixes the log's term pattern; `mlog` / `mterms` are the message's
/// prev-term and entry terms (concrete: the pattern of equalities decides where the log is
/// truncated, i.e. vector lengths).  Everything else is symbolic.
pub const O_STALE: u8 = 1;
pub const O_BELOW: u8 = 2;
pub const O_REJECT: u8 = 3;
pub const O_DUP: u8 = 4;
pub const O_TRUNC: u8 = 5;
pub const O_EXTEND: u8 = 6;

/// `want` = the outcome this term pattern is designed to reach (reachability witness).
pub fn append_step(s: &mut Src, sh: &Shape, idx_off: u64, mlog: u64, mterms: &[u64], want: u8) {
    let (o, commit_adv) = append_body(s, sh, idx_off, mlog, mterms);
    vcover!(o == want, "the outcome this pattern targets");
    vcover!(o == O_STALE, "stale-term append");
    vcover!(want == O_REJECT || commit_adv, "commit advanced");
}

fn append_body(s: &mut Src, sh: &Shape, idx_off: u64, mlog: u64, mterms: &[u64]) -> (u8, bool) {
    let n_ents = mterms.len();
    let (mut r, g) = mk_raft(s, sh);
    let from = 2 + s.below(2); // 2 or 3
    let mut m = msg(MessageType::MsgAppend, from, any_term(s));
    vassume!(m.term >= 1);
    m.index = sh.base + idx_off;
    m.log_term = mlog;
    vassume!(m.log_term <= m.term);
    m.commit = s.u64();
    let mut ets = [0u64; 3];
    let mut ety = [0i32; 3];
    let mut prev = m.log_term;
    let mut j = 0;
    while j < n_ents {
        let mut e = Entry::default();
        e.index = m.index + 1 + j as u64;
        e.term = mterms[j];
        assert!(e.term >= prev && e.term >= 1, "harness parameters: message terms");
        vassume!(e.term <= m.term);
        e.entry_type = s.below(3) as i32;
        ets[j] = e.term;
        ety[j] = e.entry_type;
        prev = e.term;
        // assume/guarantee (3.0 + Leader Completeness): the sender's log agrees with every
        // entry this node has committed
        if e.index <= g.committed {
            vassume!(g.term_at(e.index) == Some(e.term));
        }
        m.entries.push(e);
        j += 1;
    }
    let n = n_ents as u64;
    let (term0, role0, lead0, vote0) = (r.term, r.state, r.leader_id, r.vote);
    let (mterm, mindex, mlogterm, mcommit) = (m.term, m.index, m.log_term, m.commit);
    let lower = r.check_quorum || r.pre_vote;
    let last0 = g.last();

    let res = r.step(m);
    assert!(res.is_ok());

    assert!(r.term >= term0, "term decreased");
    assert_li(&r);
    // committed prefix immutable (C05 / C01-prefix)
    let mut i = g.base;
    while i <= g.base + LMAX as u64 {
        if i <= g.committed {
            assert!(r.raft_log.term(i).ok() == g.term_at(i), "entry at or below the commit index changed");
        }
        i += 1;
    }
    assert!(r.raft_log.committed >= g.committed, "commit decreased");

    if mterm < term0 {
        // stale leader: nothing changes; a bare AppendResponse only with check_quorum / pre_vote
        assert!(r.term == term0 && r.state == role0 && r.leader_id == lead0 && r.vote == vote0);
        assert!(r.raft_log.last_index() == last0 && r.raft_log.committed == g.committed);
        if lower {
            assert!(r.msgs.len() == 1);
            let a = &r.msgs[0];
            assert!(a.get_msg_type() == MessageType::MsgAppendResponse && a.to == from && a.term == term0);
            assert!(!a.reject && a.index == 0);
        } else {
            assert!(r.msgs.is_empty());
        }
        forget(r);
        return (O_STALE, false);
    }
    assert!(r.term == mterm && r.state == StateRole::Follower && r.leader_id == from);
    assert!(r.election_elapsed == 0);
    if mterm == term0 {
        assert!(r.vote == vote0, "vote changed within the term");
    }
    assert!(r.msgs.len() == 1, "exactly one reply");
    let a = &r.msgs[0];
    assert!(a.get_msg_type() == MessageType::MsgAppendResponse && a.to == from && a.term == mterm);
    assert!(a.commit == r.raft_log.committed);

    if mindex < g.committed {
        assert!(!a.reject && a.index == g.committed);
        assert!(r.raft_log.last_index() == last0 && r.raft_log.committed == g.committed);
        forget(r);
        return (O_BELOW, false);
    }
    let matched = g.term_at(mindex) == Some(mlogterm);
    if !matched {
        // reject: nothing changes, hint per find_conflict_by_term
        assert!(a.reject && a.index == mindex);
        assert!(r.raft_log.last_index() == last0 && r.raft_log.committed == g.committed);
        assert!(r.raft_log.persisted == g.persisted);
        let hi = if mindex < last0 { mindex } else { last0 };
        let (hidx, hterm) = hint_oracle(&g, hi, mlogterm);
        assert!(a.reject_hint == hidx, "reject hint index");
        assert!(a.log_term == hterm, "reject hint term");
        let mut i = g.base;
        while i <= last0 {
            assert!(r.raft_log.term(i).ok() == g.term_at(i), "rejected append changed the log");
            i += 1;
        }
        forget(r);
        return (O_REJECT, false);
    }
    // accepted
    assert!(!a.reject && a.index == mindex + n, "ack index");
    // first conflicting position (oracle): first j whose term differs from ours or lies beyond our log
    let mut conflict: Option<u64> = None;
    let mut j = 0;
    while j < n_ents {
        let idx = mindex + 1 + j as u64;
        if conflict.is_none() && g.term_at(idx) != Some(ets[j]) {
            conflict = Some(idx);
        }
        j += 1;
    }
    let new_last = match conflict {
        Some(_) => mindex + n,
        None => last0, // duplicate / old append: nothing may be truncated
    };
    assert!(r.raft_log.last_index() == new_last, "last index after append");
    let mut i = g.base;
    while i <= g.base + LMAX as u64 {
        if i <= new_last {
            let expect = if i > mindex && i <= mindex + n {
                Some(ets[(i - mindex - 1) as usize])
            } else {
                g.term_at(i)
            };
            assert!(r.raft_log.term(i).ok() == expect, "log content after append");
        }
        i += 1;
    }
    // entry types of what was appended
    if let Some(c) = conflict {
        assert!(c > g.committed, "truncated at or below commit");
        assert!(r.raft_log.unstable.offset <= c, "conflicting suffix must be unstable again");
        let mut k = 0;
        while k < r.raft_log.unstable.entries.len() {
            let e = &r.raft_log.unstable.entries[k];
            // (only what was really appended: a message entry whose (index, term) matches a local
            // entry is not copied, and the harness does not constrain its type to equal the local one)
            if e.index >= c && e.index <= mindex + n {
                assert!(e.entry_type == ety[(e.index - mindex - 1) as usize], "entry type altered");
            }
            k += 1;
        }
        // persisted falls back below the truncation point
        let exp_p = if g.persisted > c - 1 { c - 1 } else { g.persisted };
        assert!(r.raft_log.persisted == exp_p, "persisted after truncation");
    } else {
        assert!(r.raft_log.persisted == g.persisted);
    }
    // C04-foll: commit = max(old, min(m.commit, last new index))
    let cap = if mcommit < mindex + n { mcommit } else { mindex + n };
    let exp_c = if cap > g.committed { cap } else { g.committed };
    assert!(r.raft_log.committed == exp_c, "follower commit rule");
    let o = match conflict {
        None => O_DUP,
        Some(c) => {
            if c <= last0 {
                O_TRUNC
            } else {
                O_EXTEND
            }
        }
    };
    let adv = r.raft_log.committed > g.committed;
    forget(r);
    (o, adv)
}

pub fn heartbeat_step(s: &mut Src, sh: &Shape) {
    let (mut r, g) = mk_raft(s, sh);
    let from = 2 + s.below(2);
    let mut m = msg(MessageType::MsgHeartbeat, from, any_term(s));
    vassume!(m.term >= 1);
    m.commit = s.u64();
    // 3.0: heartbeat commit <= what this follower acknowledged (<= its last index);
    // guaranteed by C13-hb on the sender side
    vassume!(m.commit <= g.last());
    let ctx = s.bool();
    if ctx {
        m.context = vec![7u8];
    }
    // the node may be waiting for a snapshot it asked for (C16: heartbeats still renew the lease)
    if s.bool() {
        r.pending_request_snapshot = g.last();
    }
    let waiting = r.pending_request_snapshot != 0;
    let (term0, role0, lead0, vote0) = (r.term, r.state, r.leader_id, r.vote);
    let (mterm, mcommit) = (m.term, m.commit);
    let lower = r.check_quorum || r.pre_vote;
    let res = r.step(m);
    assert!(res.is_ok());
    assert!(r.term >= term0);
    assert_li(&r);
    assert!(r.raft_log.last_index() == g.last());
    let mut i = g.base;
    while i <= g.last() {
        assert!(r.raft_log.term(i).ok() == g.term_at(i), "heartbeat changed the log");
        i += 1;
    }
    if mterm < term0 {
        assert!(r.term == term0 && r.state == role0 && r.leader_id == lead0 && r.vote == vote0);
        assert!(r.raft_log.committed == g.committed);
        assert!(r.msgs.len() == if lower { 1 } else { 0 });
        forget(r);
        return;
    }
    assert!(r.term == mterm && r.state == StateRole::Follower && r.leader_id == from);
    assert!(r.election_elapsed == 0, "a heartbeat from the leader must renew the election timer / lease");
    let exp = if mcommit > g.committed { mcommit } else { g.committed };
    // a snapshot request survives heartbeats of the same term (a new term forgets it)
    assert!(mterm > term0 || (r.pending_request_snapshot != 0) == waiting);
    if r.pending_request_snapshot != 0 {
        // while a requested snapshot is outstanding the node re-sends its request instead of answering
        assert!(r.raft_log.committed == exp && r.msgs.len() == 1);
        let a = &r.msgs[0];
        assert!(a.get_msg_type() == MessageType::MsgAppendResponse && a.reject && a.request_snapshot == g.last() && a.to == from && a.index == exp);
        forget(r);
        return;
    }
    assert!(r.raft_log.committed == exp, "heartbeat commit rule");
    assert!(r.msgs.len() == 1);
    let a = &r.msgs[0];
    assert!(a.get_msg_type() == MessageType::MsgHeartbeatResponse && a.to == from && a.term == mterm);
    assert!(a.commit == exp);
    assert!(a.context.len() == if ctx { 1 } else { 0 }, "context echoed unmodified");
    if ctx {
        assert!(a.context[0] == 7);
    }
    vcover!(r.raft_log.committed > g.committed, "commit advanced by heartbeat");
    vcover!(r.term > term0, "term advanced");
    forget(r);
}


/// A delayed duplicate of a genuine MsgAppend reaches a follower that has meanwhile compacted
/// its applied log beyond the append's anchor: anchor (base-1) is below the compaction point,
/// the entries run up to the commit index.  Everything in it is already committed here: the
/// follower must answer with its commit index - and must not trip over the compacted anchor.
pub fn append_below_compaction(s: &mut Src, sh: &Shape) {
    let (mut r, g) = mk_raft(s, sh);
    assert!(sh.base >= 2, "harness parameter");
    let term0 = r.term;
    let mut m = msg(MessageType::MsgAppend, 2, term0);
    m.index = sh.base - 1;
    m.log_term = 1;
    m.commit = g.committed;
    let mut i = sh.base;
    while i <= g.committed {
        let mut e = Entry::default();
        e.index = i;
        e.term = g.term_at(i).unwrap();
        m.entries.push(e);
        i += 1;
    }
    let res = r.step(m);
    assert!(res.is_ok());
    assert!(r.term == term0 && r.raft_log.last_index() == g.last() && r.raft_log.committed == g.committed, "stale append changed the log / commit");
    assert!(r.msgs.len() == 1);
    let a = &r.msgs[0];
    assert!(a.get_msg_type() == MessageType::MsgAppendResponse && a.to == 2 && !a.reject && a.index == g.committed, "stale append must be answered with the commit index");
    crate::macros::reached_end();
    forget(r);
}
