#!/bin/bash
# confirms all round-2 sub-agent deliveries (worktrees /tmp/wt2/<ID>), 4 worktrees at a time
cd /verif
for P in "$@"; do
  ( WT_ROOT=/tmp/wt2 ID_AS=c CARGO_NET_OFFLINE=true tools/confirm_seed.sh $P a 2>&1 | tail -2
    WT_ROOT=/tmp/wt2 ID_AS=d CARGO_NET_OFFLINE=true tools/confirm_seed.sh $P b 2>&1 | tail -2
    rm -rf /tmp/wt2/$P/target ) &
  while [ $(jobs -r | wc -l) -ge 4 ]; do sleep 5; done
done
wait
