#!/bin/bash
# targeted evaluation: seed -> harnesses expected to catch it (all of them belong to the quick tier of
# the property the seed breaks); prints one line per seed.
cd /verif
while read S H; do
  [ -z "$S" ] && continue
  case " $SKIP " in *" $S "*) continue;; esac
  cd /repo && git apply /verif/seeded/$S/patch.diff || { echo "$S cannot apply"; continue; }
  args=""; for h in $H; do args="$args --harness $h"; done
  cd /verif && VERIF_NO_RELEASE=1 VERIF_JOBS=12 VERIF_TIMEOUT=600 ./check $args > run/tgt_$S.txt 2>&1; code=$?
  git -C /repo checkout -- .
  v=$(grep -c '^VIOLATION' run/tgt_$S.txt); w=$(grep "violated:" run/tgt_$S.txt | head -1 | sed 's/^ *violated: //' | cut -c1-150)
  echo "$S | exit=$code | violations=$v | $w"
done <<'LIST'
C01-a vote_follower_real vote_follower_pre
C01-b rn_stepdown_grant rn_stepdown_append
C02-a voteresp_wrong_kind
C02-b propose_normal_then_cc
C03-a vote_follower_real vote_follower_pre
C03-b voteresp_wrong_kind
C04-a leader_checkquorum_lost vote_leader_real_hi_c3m
C04-b rn_stepdown_append rn_stepdown_grant
C05-a appresp_batch_overlap
C05-b log_slice_limit_boundary
C06-a rn_stepdown_grant
C06-b rn_vote_same_term
C07-a rn_vote_same_term
C07-b rn_async_overwrite
C08-a read_then_stepdown
C08-b read_singleton_not_committed
C09-a propose_normal_then_cc
C09-b apply_leader_demotes_itself apply_leader_removes_itself
C10-a leader_tick_cq_lost_states
C10-b apply_follower_outgoing_only snap_install_outgoing_only
C11-a quorum_ci_8_0_cap9
C11-b quorum_tracker_joint_5_2 quorum_tracker_2
C12-a cc_enter_learner_add_33
C12-b cc_enter_add_remove_add_555
C13-a appresp_ack_snapshot_stale
C13-b log_slice_limit_boundary
C14-a log_slice_limit_boundary
C14-b log_restore_seq
C15-a rn_snapshot
C15-b snap_install_over_autoleave_joint
C16-a stray_prevote_grant_follower
C16-b vote_follower_real vote_follower_pre
C17-a apply_demote_transferee
C17-b transfer_lagging
C18-a c18_step_c3_b3_p1 c18_step_c2_b2_p1
C18-b c18_step_c2_b2_pn
C19-a mem_snapshot_below_commit
C19-b mem_conf_after_snapshot
C20-a rn_snapshot_then_hup
C20-b read_dup_ctx
LIST
