#!/bin/bash
# usage: par_eval.sh <listfile> [K]
# Parallel seed evaluation without touching /repo or /verif: K private copies (/tmp/ev/<k>/{repo,verif}),
# each run inside its own mount namespace where the copies are bind-mounted over /repo and /verif, so the
# unmodified ./check (and the harness crate's path dependency on /repo) sees the seeded tree.
# listfile lines:  <seed-id> <check args...>     e.g.  "C03-c C03"  or  "C03-c --harness vote_follower_real"
LIST=$(readlink -f $1); K=${2:-4}
mkdir -p /tmp/ev /verif/run/ev
for k in $(seq 1 $K); do
  E=/tmp/ev/$k
  if [ ! -d $E/repo ]; then mkdir -p $E; git clone -q /repo $E/repo; fi
  git -C $E/repo fetch -q origin; git -C $E/repo checkout -q -f --detach origin/HEAD 2>/dev/null || git -C $E/repo reset -q --hard origin/master
  cmp -s <(git -C /repo rev-parse HEAD) <(git -C $E/repo rev-parse HEAD) || { git -C $E/repo fetch -q /repo HEAD; git -C $E/repo checkout -q -f --detach FETCH_HEAD; }
  mkdir -p $E/verif
  rsync -a --delete --exclude harness/target --exclude run --exclude .git --exclude evidence /verif/ $E/verif/
  mkdir -p $E/verif/run $E/verif/evidence
done
awk 'NF' $LIST | grep -v '^#' > /tmp/ev/list.txt
for k in $(seq 1 $K); do
  awk -v k=$k -v K=$K '(NR-1)%K==k-1' /tmp/ev/list.txt > /tmp/ev/$k/list.txt
  unshare -m bash -c "
    mount --bind /tmp/ev/$k/repo /repo && mount --bind /tmp/ev/$k/verif /verif || exit 9
    cd /verif
    while read S ARGS; do
      git -C /repo checkout -q -- . ; git -C /repo apply /verif/seeded/\$S/patch.diff || { echo \"\$S cannot apply\"; continue; }
      t0=\$(date +%s)
      VERIF_NO_RELEASE=1 VERIF_JOBS=${VERIF_JOBS:-5} VERIF_TIMEOUT=${VERIF_TIMEOUT:-900} ./check \$ARGS > run/ev_\$S.txt 2>&1; code=\$?
      git -C /repo checkout -q -- .
      v=\$(grep -c '^VIOLATION' run/ev_\$S.txt); i=\$(grep -c '^INCONCLUSIVE' run/ev_\$S.txt)
      w=\$(grep 'violated:' run/ev_\$S.txt | head -2 | sed 's/^ *violated: //' | cut -c1-140 | tr '\n' ';')
      echo \"\$S | \$ARGS | exit=\$code | violations=\$v inconclusive=\$i | \$((\$(date +%s)-t0))s | \$w\"
    done < /tmp/ev/$k/list.txt
  " > /tmp/ev/$k/out.txt 2>&1 &
done
wait
for k in $(seq 1 $K); do cat /tmp/ev/$k/out.txt; cp /tmp/ev/$k/verif/run/ev_*.txt /verif/run/ev/ 2>/dev/null; done
