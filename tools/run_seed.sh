#!/bin/bash
# usage: run_seed.sh <seed-id> <check args...>   e.g. run_seed.sh C03-a C03   or   run_seed.sh C03-a --harness x
# applies /verif/seeded/<seed-id>/patch.diff to /repo, runs ./check with the given args, reverts.
S=$1; shift
cd /repo && git apply /verif/seeded/$S/patch.diff || { echo "cannot apply $S"; exit 9; }
cd /verif && VERIF_JOBS=${VERIF_JOBS:-12} VERIF_TIMEOUT=${VERIF_TIMEOUT:-600} ./check "$@" > run/seedrun_$S.txt 2>&1
code=$?
git -C /repo checkout -- .
echo "$S [$*] exit=$code: $(grep -c '^VIOLATION' run/seedrun_$S.txt) violation lines; $(grep -c '^INCONCLUSIVE' run/seedrun_$S.txt) inconclusive"
grep "violated:" run/seedrun_$S.txt | head -4
exit $code
