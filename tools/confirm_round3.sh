#!/bin/bash
# confirms round-3 sub-agent deliveries (worktrees /tmp/wt3/<ID>), filed as <ID>-e / <ID>-f
cd /verif
for P in "$@"; do
  ( WT_ROOT=/tmp/wt3 ID_AS=e CARGO_NET_OFFLINE=true tools/confirm_seed.sh $P a 2>&1 | tail -2
    WT_ROOT=/tmp/wt3 ID_AS=f CARGO_NET_OFFLINE=true tools/confirm_seed.sh $P b 2>&1 | tail -2
    rm -rf /tmp/wt3/$P/target ) &
  while [ $(jobs -r | wc -l) -ge 3 ]; do sleep 5; done
done
wait
