#!/bin/bash
# usage: eval_seeds.sh [seed ids...]   -- for each seeded change: apply to /repo, run the quick check of the
# property it breaks (plus any extra properties given in seeded/<id>/also.txt), revert; writes seeded/RESULTS.md
cd /verif
IDS="$@"; [ -z "$IDS" ] && IDS=$(ls seeded | grep -v RESULTS | sort)
for S in $IDS; do
  P=${S%%-*}
  PROPS="$P"; [ -f seeded/$S/also.txt ] && PROPS="$PROPS $(cat seeded/$S/also.txt)"
  for Q in $PROPS; do
    cd /repo && git apply /verif/seeded/$S/patch.diff || { echo "$S cannot apply"; continue; }
    cd /verif && VERIF_JOBS=${VERIF_JOBS:-13} VERIF_TIMEOUT=${VERIF_TIMEOUT:-600} ./check $Q > run/eval_${S}_$Q.txt 2>&1; code=$?
    git -C /repo checkout -- .
    v=$(grep -c '^VIOLATION' run/eval_${S}_$Q.txt); w=$(grep "violated:" run/eval_${S}_$Q.txt | head -1 | sed 's/^ *violated: //' | cut -c1-160)
    echo "$S | $Q | exit=$code | violations=$v | $w"
  done
done
