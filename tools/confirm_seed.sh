#!/bin/bash
# usage: confirm_seed.sh <PROP> <a|b>   -- confirms a sub-agent's seeded change in its scratch worktree
# (suite passes with the change, demo fails with it and passes without) and files it under /verif/seeded/.
P=$1; V=$2; ROOT=${WT_ROOT:-/tmp/wt}; W=$ROOT/$P; O=$W/_out/$V
# round 2: WT_ROOT=/tmp/wt2 ID_AS=c|d files the change under <PROP>-<ID_AS>
IDV=${ID_AS:-$V}
cd $W || exit 9
git checkout -q -- . ; rm -f harness/tests/seeded_demo_*.rs
DEMO_PATH=$(grep -o '[A-Za-z0-9_/.-]*seeded_demo[A-Za-z0-9_]*\.rs' $O/demo_path.txt | head -1)
DEMO_PATH=${DEMO_PATH#$W/}
[ -z "$DEMO_PATH" ] && DEMO_PATH=harness/tests/seeded_demo_$V.rs
TEST=$(basename $DEMO_PATH .rs)
git apply $O/patch.diff || { echo "$P-$V: patch does not apply"; exit 8; }
S=$(cargo nextest run --workspace --no-fail-fast --tool-config-file pb:/w/lib/nextest.toml --profile pb --test-threads 8 --offline 2>&1 | grep -E "Summary|tests run" | tail -1)
cp $O/demo.rs $DEMO_PATH
cargo test -p harness --test $TEST --offline > $O/demo_with.log 2>&1; WITH=$?
git checkout -q -- src proto
cargo test -p harness --test $TEST --offline > $O/demo_without.log 2>&1; WITHOUT=$?
rm -f $DEMO_PATH
echo "$P-$V: suite=[$S] demo_with_change_exit=$WITH demo_without_change_exit=$WITHOUT"
if echo "$S" | grep -q "254 passed" && [ $WITH -ne 0 ] && [ $WITHOUT -eq 0 ]; then
  D=/verif/seeded/$P-$IDV; mkdir -p $D
  cp $O/patch.diff $D/patch.diff; cp $O/demo.rs $D/demo.rs
  python3 - "$P" "$IDV" "$O" "$D" "$DEMO_PATH" "$S" <<'PY'
import json,sys
P,V,O,D,DP,S=sys.argv[1:7]
try: m=json.load(open(O+'/meta.json'))
except Exception: m={}
json.dump({"id":P+"-"+V,"breaks_property":P,"summary":m.get("summary"),"needs_to_manifest":m.get("needs"),
 "demo":{"file":"demo.rs","place_at":DP,"run":"cargo test -p harness --test %s --offline"%DP.split('/')[-1][:-3]},
 "confirmed":{"suite_with_change":S.strip(),"demo_with_change":"fails","demo_without_change":"passes",
   "how":"tools/confirm_seed.sh %s %s in a scratch worktree of /repo (removed afterwards)"%(P,V)},
 "origin":"independent sub-agent given only the property text"}, open(D+'/meta.json','w'), indent=1)
PY
  echo "$P-$V: CONFIRMED -> $D"
else
  echo "$P-$V: NOT confirmed"
fi
