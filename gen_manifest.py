#!/usr/bin/env python3
"""Regenerates MANIFEST.json from the table below (kept in one place so it stays valid)."""
import json, os, subprocess
V = os.path.dirname(os.path.abspath(__file__))
HOOK_COMMITS = subprocess.run(["git", "-C", "/repo", "log", "--format=%H %s"], capture_output=True, text=True).stdout.splitlines()
HOOK_COMMITS = [l.split()[0] for l in HOOK_COMMITS if "verif hooks" in l]

TRUST = ("Trusted: rustc/Kani codegen, CBMC, CaDiCaL; the cfg(tikv_raft_rs_verif) array-backed map/set shim stands in for std "
         "HashMap/HashSet; prost codec; fmt::format/fmt::write stubbed; representation invariants of DESIGN.md 2.2 (checked for "
         "preservation). Bounded: holds for all values inside the per-harness shape/unwind bounds written in the evidence file; "
         "nothing is claimed outside them.")

DEC = ("Decomposed (DESIGN.md 0.2): the checks decide per-node, per-step obligations on the real code; the step from these local "
       "obligations to the cluster-wide statement over unbounded schedules is the standard Raft induction and is NOT mechanised here. ")
SCEN = ("Leader-side and RawNode harnesses are concrete-index scenarios (log shape, next/matched/commit/persisted indexes, roles and term "
        "relation concrete; vote, leader id, timers, flags, payload/terms where they are pure data symbolic) because anything that decides a "
        "vector length must be concrete for CBMC; follower-side vote / heartbeat steps are fully symbolic. ")

CLAIMS = {
 "C01": dict(text="Bounded model checking of single real steps (Raft::step for (pre)votes, appends, heartbeats, snapshots, read-index responses; RawNode ready/advance cycles): commit and applied never decrease, no entry at or below the commit index changes, commit moves only by the follower / vote / read-response rules, committed entries are handed to the application exactly once in order. " + DEC,
            ref="3/C01", note=SCEN + TRUST),
 "C02": dict(text="One real step per harness: a cast vote never changes within a term (all roles, symbolic requests); leadership is reached only from Candidate, at the same term, on a real-vote grant that makes the recorded votes a joint majority (3-, 5-voter and joint configurations, duplicate / stray / stale / non-voter / wrong-kind responses); a new leader starts without stale acknowledgements and with a fresh uncommitted-size budget; RawNode releases a grant only with the hard state that records it. " + DEC,
            ref="3/C02", note=SCEN + TRUST),
 "C03": dict(text="Every (pre-)vote grant emitted by one real Raft::step from a symbolic state implies the candidate's (last term, last index) >= the voter's; grants carry the request's term and go to the requester; campaign requests carry the node's true last index/term/commit; commit-by-vote moves only to a locally matching (index, term). " + DEC,
            ref="3/C03", note=SCEN + TRUST),
 "C04": dict(text="Leader scenarios (ack, stale ack, reject, joint configs, leader-unpersisted, persistence notices, membership change): commit advances only to own-term entries acknowledged by a joint quorum per an independent counting oracle, the leader's own matched follows persistence only, a peer's matched only its acks; follower commit follows min(leader commit, last matched new index). The real maximal_committed_index is checked against the oracle in C11 and replaced by that oracle (contract stub) in Raft-level harnesses. " + DEC,
            ref="3/C04", note=SCEN + TRUST),
 "C05": dict(text="Follower MsgAppend over concrete term patterns (duplicate, conflict in unstable / stable region, extension, reject with hint, empty) with symbolic cursors and message term: post-log equals the sequence model, truncation exactly at the first conflict, nothing at or below commit changes; RaftLog::maybe_append likewise; leaders never rewrite their log in any leader scenario. " + DEC,
            ref="3/C05", note=SCEN + TRUST),
 "C06": dict(text="RawNode ready/persist/advance cycles: term never decreases; a non-leader releases messages only as persisted_messages; a granted vote is recorded in the hard state of the same Ready and that Ready is must_sync even when only the vote changed; what a leader sends immediately carries an already durable term; stale persistence notices never move persisted onto unwritten entries. Restart: RawNode::new on a durable image reproduces exactly the durable term / vote / commit, leaves the log untouched and resumes apply after the applied index. Found and fixed a genuine defect (single-voter leader with learners).",
            ref="3/C06", note="Crash points are not enumerated as such: 'never behind anything it told another node' follows from (per Ready) promises are released only with / after the hard state and entries that cover them + (restart) the restarted node equals its durable image. " + SCEN + TRUST),
 "C07": dict(text="Every clause of the Ready contract on real RawNode cycles: entries = unstable suffix handed once, hs present iff changed, must_sync rule, committed entries = exactly the committed, persisted, not-yet-handed range (contiguous, in order, none unpersisted), LightReady continues without gap/duplicate, has_ready() agrees with ready(), snapshot Ready, async persistence (plain, snapshot, with an overwriting append in between - also exactly at the noticed index), one-entry-per-hand-off pagination (max_committed_size_per_ready = 0) drained over several rounds, apply-before-persist with limits 1, 2 and u64::MAX. Found and fixed a genuine defect (overflow of persisted + limit).",
            ref="3/C07", note="Pagination only with page sizes NO_LIMIT and 0 (general byte limits are decided at RaftLog::slice level in C14); max_apply_unpersisted_log_limit only 0, 1, 2 and u64::MAX. " + SCEN + TRUST),
 "C08": dict(text="Leader read-index scenarios (3 / 5 voters, joint, learner, forwarded, duplicate ack, wrong context, singleton, not yet committed in term, loss of leadership) and the follower side: a read state appears only after a joint quorum of distinct voters acknowledged the request's context, carries the commit index recorded at request time, and goes only to the requester; pending reads die with the term; an acknowledgement releases only the reads queued up to its context; no single-voter fast path while an outgoing half exists. " + DEC,
            ref="3/C08", note=SCEN + TRUST),
 "C09": dict(text="Proposal filtering (pending change, second change in a batch, enter while joint, leave while not joint, batch [normal, change]), campaign gating on unapplied membership entries (hup / timeout / MsgTimeoutNow; one or several unapplied entries; scan in one page or one entry per page), promotable = voter of own config after apply_conf_change and snapshot install, non-voters never campaign; configuration after apply equals reference semantics (C12). " + DEC,
            ref="3/C09", note=SCEN + TRUST),
 "C10": dict(text="Only the per-step 'cannot stay stuck' obligations are decided: heartbeat response resumes a paused probe / frees a full window / respects an outstanding snapshot, rejections strictly lower next_idx, snapshot status reports and unreachable reports move progress to the right state, ticks fire elections and heartbeats exactly on schedule, check-quorum verdict exact. The first sentence (bounded-time convergence of the whole cluster) is NOT decided.",
            ref="3/C10", note="Liveness over a fair suffix needs many ticks on several nodes - out of reach for bounded model checking of the real code (DESIGN.md 0.2). " + SCEN + TRUST),
 "C11": dict(text="Real JointConfig/MajorityConfig::committed_index and vote_result, ProgressTracker::{maximal_committed_index, tally_votes, quorum_recently_active} against counting oracles for halves of 0..=5 voters (0..=3 quick), symbolic distinct ids per half (overlap free), symbolic 64-bit acked indexes, ids missing from the indexer, symbolic groups for group commit (each half against the oracle, joint = minimum, also through the tracker wrapper in simple and joint configurations).",
            ref="3/C11", note="Halves of 6-9 voters: only 8+0 (quick, concrete ids, 12-bit indexes) and 9+2 / 8 symbolic-id (thorough) in the capacity-9 build cover the heap path of committed_index. " + TRUST),
 "C12": dict(text="Real Changer::{simple, enter_joint, leave_joint} + apply_conf over listed configurations and every change type with ids 0..=5 (incl. 0 and untracked): result equals reference semantics, invariants hold, <=1 voter changes in simple, rejects leave everything untouched, quorum overlap old/new with two symbolic quorums through the real vote_result; ConfState round trip; Raft::apply_conf_change dispatch.",
            ref="3/C12", note="Change lists of length <= 3 over listed id tuples (ids decide vector lengths, hence concrete). " + TRUST),
 "C13": dict(text="Every message a leader emits in the leader scenarios is a contiguous slice of its log anchored at a log position, commits advertised <= commit (heartbeats also <= matched), inflight count <= max_inflight, at most one entry-carrying append while probing then paused, nothing while a snapshot is outstanding; uncommitted-size admission at the exact boundary; size-limited reads are maximal prefixes (C14).",
            ref="3/C13", note="batch_append = true and adjust_max_inflight_msgs at runtime are not in the Raft-level scenarios (Inflights resizing is C18). " + SCEN + TRUST),
 "C14": dict(text="Real RaftLog<VStore>: queries (term, match_term, is_up_to_date, find_conflict_by_term, has_next_entries_since) and cursor operations (maybe_commit, commit_to, maybe_persist, applied_to) with symbolic arguments, maybe_append over concrete term patterns, size-limited slice at every prefix-sum boundary, restore / stable_snap / maybe_persist_snap sequence - all against a sequence model.",
            ref="3/C14", note="Logs of <= 4 live entries; storage compaction between calls only as a shape (base = 7). " + TRUST),
 "C15": dict(text="Follower MsgSnapshot four-way case split (stale / non-member / already matching and not requested / install, incl. joint ConfState and requested snapshots) with exact post-states and continuation by a following append; leader sends a snapshot exactly when the needed entries are compacted and one is available, progress enters Snapshot(pending); snapshot status / caught-up acks resume at the right index; RawNode snapshot Ready. " + DEC,
            ref="3/C15", note=SCEN + TRUST),
 "C16": dict(text="Sentence 1 decided for every role with symbolic requests: a pre-vote request never changes term or vote. In-lease nodes ignore non-transfer campaigns (symbolic timers incl. the lease edge); a pre-candidate raises its term only by winning or when told of a higher one; stray pre-vote grants never disturb followers or leaders; check-quorum verdict exact. The lock-step sentence is decomposed. " + DEC,
            ref="3/C16", note=SCEN + TRUST),
 "C17": dict(text="Leader scenarios: MsgTimeoutNow only to the transferee once it matched the whole log (request time or later ack), learner/unknown targets ignored, self at most cancels, proposals refused during transfer, transfer abandoned after an election timeout (with and without check_quorum) or when the target leaves the voters; target side goes straight to a real election with the transfer context. " + DEC,
            ref="3/C17", note=SCEN + TRUST),
 "C18": dict(
   text="Bounded model checking of the real Inflights code: induction base (new(c)) + one operation of every kind "
        "(add, free_to, free_first_one, reset, maybe_free_buffer, set_cap(k)) from every representation state of capacity "
        "<= 3 (quick) / <= 4 (thorough) - all ring rotations, fill levels, buffer lengths, allocated or not, pending shrinks - "
        "with fully symbolic 64-bit contents and arguments, compared against a FIFO reference model (count, full, contents in "
        "order, effective capacity, shrink applied at drain) and checked for invariant preservation, so histories of any "
        "length over those capacities are covered; plus public-API-only scripted sequences with drain comparison.",
   ref="3/C18", note="Capacities and set_cap arguments above 4-6 are outside the bound; over-allocated buffers (after a growing set_cap) with slack 2-3. " + TRUST),
 "C19": dict(text="Real MemStorage driven by scripted mutation sequences (append incl. overwriting, compact, apply_snapshot, hard state, commit_to, set_conf_state; symbolic terms / hard state / configuration ids) compared with a model on first/last index, term over a window of indexes incl. compacted and unavailable ones, range reads with and without size limit, snapshot(request). Found and fixed a genuine defect (empty range on an empty store).",
            ref="3/C19", note="Op kinds and index offsets are concrete per script (<= 4 mutations); std RwLock/Arc replaced by single-threaded stand-ins under the cfg guard. " + TRUST),
 "C20": dict(text="Kani's built-in panic / unwrap / index / overflow / unreachable checks over every explored path of the RawNode cycles and representative Raft steps, plus RawNode::step rejecting local types and non-member responses with state untouched, campaign right after a snapshot step, a leader that removed itself. Two genuine defects found: one fixed (leader self-removal), one recorded as known finding (single voter re-campaigning with an unpersisted tail).",
            ref="3/C20", note=SCEN + TRUST),
}
NA = {}
ALL = [json.loads(l)["id"] for l in open(os.path.join(V, "properties.jsonl"))]
for p in ALL:
    if p not in CLAIMS and p not in NA:
        NA[p] = "check not built yet in this session (solver-based harnesses are being added property by property; see DESIGN.md section 3 for the plan)"

m = {
 "version": 1,
 "setup_cmd": "./check --setup",
 "hooks": {
   "guard": "cfg(tikv_raft_rs_verif)",
   "enable": "RUSTFLAGS=\"--cfg tikv_raft_rs_verif\" with --no-default-features --features prost-codec (set by ./check; the harness crate /verif/harness has a path dependency on /repo)",
   "baseline_off_cmd": "cd /repo && cargo nextest run --workspace --no-fail-fast --tool-config-file pb:/w/lib/nextest.toml --profile pb --test-threads 8 --offline",
   "source_commits": HOOK_COMMITS,
   "add_only": True,
 },
 "engines": [{
   "name": "kani-cbmc",
   "path": "/verif/check",
   "serves_properties": sorted(CLAIMS),
   "kind_free_text": "Kani 0.68 compiles /repo + /verif/harness to goto programs; CBMC 6.11 executes them symbolically and CaDiCaL decides every assertion; counterexamples are extracted from the CBMC trace and replayed natively (harness/src/bin/replay.rs)",
 }],
 "checks": [],
 "not_applicable": [{"property_id": p, "reason": NA[p]} for p in ALL if p in NA],
 "notes": "Exit codes of ./check: 0 held within bounds, 1 violation (VIOLATION line, natively replayed), 2 inconclusive/infrastructure (timeout, OOM, unwinding bound, unsatisfied reachability witness, non-reproducing counterexample).",
}
for p in ALL:
    if p in CLAIMS:
        c = CLAIMS[p]
        m["checks"].append({
          "property_id": p,
          "quick_cmd": "./check %s --tier quick" % p,
          "thorough_cmd": "./check %s --tier thorough" % p,
          "evidence_file": "/verif/evidence/%s.json" % p,
          "replay_cmd_template": "./check --replay {path}",
          "engine": "kani-cbmc",
          "level_claimed": {"category": "model_checking", "text": c["text"], "design_ref": c["ref"]},
          "level_note": c["note"],
          "technique": "bounded model checking of the compiled Rust code (Kani -> CBMC symbolic execution -> SAT), symbolic pre-state + one real step, solver verdict over all inputs within stated bounds",
        })
json.dump(m, open(os.path.join(V, "MANIFEST.json"), "w"), indent=1)
print("claims:", sorted(CLAIMS), "na:", len(NA))
