#!/usr/bin/env python3
"""Regenerates MANIFEST.json from the table below (kept in one place so it stays valid)."""
import json, os, subprocess
V = os.path.dirname(os.path.abspath(__file__))
HOOK_COMMITS = subprocess.run(["git", "-C", "/repo", "log", "--format=%H %s"], capture_output=True, text=True).stdout.splitlines()
HOOK_COMMITS = [l.split()[0] for l in HOOK_COMMITS if "verif hooks" in l]

TRUST = ("Trusted: rustc/Kani codegen, CBMC, CaDiCaL; the cfg(tikv_raft_rs_verif) array-backed map/set shim stands in for std "
         "HashMap/HashSet; prost codec; fmt::format/fmt::write stubbed; representation invariants of DESIGN.md 2.2 (checked for "
         "preservation). Bounded: holds for all values inside the per-harness shape/unwind bounds written in the evidence file; "
         "nothing is claimed outside them.")

CLAIMS = {
 "C18": dict(
   text="Bounded model checking of the real Inflights code: induction base (new(c)) + one operation of every kind "
        "(add, free_to, free_first_one, reset, maybe_free_buffer, set_cap(k)) from every representation state of capacity "
        "<= 3 (quick) / <= 4 (thorough) - all ring rotations, fill levels, buffer lengths, allocated or not, pending shrinks - "
        "with fully symbolic 64-bit contents and arguments, compared against a FIFO reference model (count, full, contents in "
        "order, effective capacity, shrink applied at drain) and checked for invariant preservation, so histories of any "
        "length over those capacities are covered; plus public-API-only scripted sequences with drain comparison.",
   ref="3/C18", note="Capacities and set_cap arguments above 4-6 are outside the bound. " + TRUST),
}
NA = {}
ALL = [json.loads(l)["id"] for l in open(os.path.join(V, "properties.jsonl"))]
for p in ALL:
    if p not in CLAIMS and p not in NA:
        NA[p] = "check not built yet in this session (solver-based harnesses are being added property by property; see DESIGN.md section 3 for the plan)"

m = {
 "version": 1,
 "setup_cmd": "./check --setup",
 "hooks": {
   "guard": "cfg(tikv_raft_rs_verif)",
   "enable": "RUSTFLAGS=\"--cfg tikv_raft_rs_verif\" with --no-default-features --features prost-codec (set by ./check; the harness crate /verif/harness has a path dependency on /repo)",
   "baseline_off_cmd": "cd /repo && cargo nextest run --workspace --no-fail-fast --tool-config-file pb:/w/lib/nextest.toml --profile pb --test-threads 8 --offline",
   "source_commits": HOOK_COMMITS,
   "add_only": True,
 },
 "engines": [{
   "name": "kani-cbmc",
   "path": "/verif/check",
   "serves_properties": sorted(CLAIMS),
   "kind_free_text": "Kani 0.68 compiles /repo + /verif/harness to goto programs; CBMC 6.11 executes them symbolically and CaDiCaL decides every assertion; counterexamples are extracted from the CBMC trace and replayed natively (harness/src/bin/replay.rs)",
 }],
 "checks": [],
 "not_applicable": [{"property_id": p, "reason": NA[p]} for p in ALL if p in NA],
 "notes": "Exit codes of ./check: 0 held within bounds, 1 violation (VIOLATION line, natively replayed), 2 inconclusive/infrastructure (timeout, OOM, unwinding bound, unsatisfied reachability witness, non-reproducing counterexample).",
}
for p in ALL:
    if p in CLAIMS:
        c = CLAIMS[p]
        m["checks"].append({
          "property_id": p,
          "quick_cmd": "./check %s --tier quick" % p,
          "thorough_cmd": "./check %s --tier thorough" % p,
          "evidence_file": "/verif/evidence/%s.json" % p,
          "replay_cmd_template": "./check --replay {path}",
          "engine": "kani-cbmc",
          "level_claimed": {"category": "model_checking", "text": c["text"], "design_ref": c["ref"]},
          "level_note": c["note"],
          "technique": "bounded model checking of the compiled Rust code (Kani -> CBMC symbolic execution -> SAT), symbolic pre-state + one real step, solver verdict over all inputs within stated bounds",
        })
json.dump(m, open(os.path.join(V, "MANIFEST.json"), "w"), indent=1)
print("claims:", sorted(CLAIMS), "na:", len(NA))
