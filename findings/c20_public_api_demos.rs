// Public-API demonstrations of two C20 findings (panics under contract-abiding use).
use raft::eraftpb::*;
use raft::storage::MemStorage;
use raft::{Config, RawNode, StateRole};
use slog::o;

fn logger() -> slog::Logger {
    slog::Logger::root(slog::Discard, o!())
}
fn cfg(id: u64) -> Config {
    Config { id, election_tick: 10, heartbeat_tick: 1, max_size_per_msg: u64::MAX, max_inflight_msgs: 256, ..Default::default() }
}
fn persist_and_advance(rn: &mut RawNode<MemStorage>) -> Vec<Message> {
    let mut out = vec![];
    if !rn.has_ready() {
        return out;
    }
    let mut rd = rn.ready();
    out.extend(rd.take_messages());
    if !rd.entries().is_empty() {
        rn.store().wl().append(rd.entries()).unwrap();
    }
    if let Some(hs) = rd.hs() {
        rn.store().wl().set_hardstate(hs.clone());
    }
    out.extend(rd.take_persisted_messages());
    let committed: Vec<Entry> = rd.take_committed_entries();
    let mut light = rn.advance(rd);
    out.extend(light.take_messages());
    let mut all = committed;
    all.extend(light.take_committed_entries());
    for e in all {
        if e.get_entry_type() == EntryType::EntryConfChange {
            let mut cc = ConfChange::default();
            protobuf::Message::merge_from_bytes(&mut cc, e.get_data()).unwrap();
            rn.apply_conf_change(&cc).unwrap();
        }
    }
    rn.advance_apply();
    out
}

#[test]
fn leader_removes_itself_then_commits() {
    let s = MemStorage::new_with_conf_state((vec![1, 2, 3], vec![]));
    let mut n1 = RawNode::new(&cfg(1), s, &logger()).unwrap();
    n1.campaign().unwrap();
    let _ = persist_and_advance(&mut n1);
    let term = n1.raft.term;
    // votes
    let mut m = Message::default();
    m.set_msg_type(MessageType::MsgRequestVoteResponse);
    m.from = 2;
    m.to = 1;
    m.term = term;
    n1.step(m).unwrap();
    assert_eq!(n1.raft.state, StateRole::Leader);
    let _ = persist_and_advance(&mut n1); // noop entry 1
    // propose: remove node 1, then a normal entry
    let mut cc = ConfChange::default();
    cc.set_change_type(ConfChangeType::RemoveNode);
    cc.node_id = 1;
    n1.propose_conf_change(vec![], cc).unwrap(); // index 2
    n1.propose(vec![], b"x".to_vec()).unwrap(); // index 3
    let _ = persist_and_advance(&mut n1);
    // both followers ack index 2 -> commit 2 -> leader applies its own removal
    for from in [2u64, 3] {
        let mut a = Message::default();
        a.set_msg_type(MessageType::MsgAppendResponse);
        a.from = from;
        a.to = 1;
        a.term = term;
        a.index = 2;
        n1.step(a).unwrap();
    }
    let _ = persist_and_advance(&mut n1);
    assert!(n1.raft.prs().get(1).is_none(), "leader removed itself");
    // now the followers ack index 3: the remaining voters {2,3} commit it
    for from in [2u64, 3] {
        let mut a = Message::default();
        a.set_msg_type(MessageType::MsgAppendResponse);
        a.from = from;
        a.to = 1;
        a.term = term;
        a.index = 3;
        n1.step(a).unwrap(); // panics: Option::unwrap on None in Raft::maybe_commit
    }
    assert_eq!(n1.raft.raft_log.committed, 3);
}

#[test]
fn singleton_steps_down_with_unpersisted_tail_and_recampaigns() {
    let s = MemStorage::new_with_conf_state((vec![1], vec![]));
    let mut n1 = RawNode::new(&cfg(1), s, &logger()).unwrap();
    n1.campaign().unwrap();
    let _ = persist_and_advance(&mut n1);
    assert_eq!(n1.raft.state, StateRole::Leader);
    n1.propose(vec![], b"x".to_vec()).unwrap(); // unpersisted entry
    // a node that was removed earlier (unknown to the configuration) still campaigns
    let mut v = Message::default();
    v.set_msg_type(MessageType::MsgRequestVote);
    v.from = 2;
    v.to = 1;
    v.term = n1.raft.term + 5;
    v.index = 100;
    v.log_term = n1.raft.term + 4;
    n1.step(v).unwrap();
    assert_eq!(n1.raft.state, StateRole::Follower);
    // the application asks for an election (or ticks past the timeout) before its next Ready round
    n1.campaign().unwrap(); // panics: assert_eq!(last_index, persisted) in become_leader
    let _ = persist_and_advance(&mut n1);
    assert_eq!(n1.raft.state, StateRole::Leader);
}
